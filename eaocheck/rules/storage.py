"""Analysis 11 - the storage level model (C05.a, C05.e, C05.g, C05.h).

level_t = start_level + eff_in * charged - discharged + cumulative inflow_t, kept in [0, size], = end_level at the end.
The rows are written as  A x <= b (upper) and A x >= b_min (lower) with the level shifted to the right-hand side, so the
right-hand sides are linear forms over size, start_level, end_level and the cumulative inflow (E5b):

C05.a  every parameter that enters the level (start_level, eff_in, inflow) is read by the level *report* Storage.fill_level
C05.e  upper minus lower right-hand side is exactly `size`; the last entries of both are the same form with +end_level
       -start_level; in the plain and in the block variant
C05.g  inside the loop that fills diagonal blocks, the global cumulative inflow is only used to build a block-relative copy
       (slice, then minus its value before the block)
C05.h  a row tying the level to the "is filled" binary puts -size on the binary (binary 0 => level <= 0), not the shifted bound
"""
from __future__ import annotations
import ast
from .. import astutil as au
from .. import linforms as lf
from ..tables import rule
from . import analysis
from ..carriers import local_roles, role

rule("C05.a", "every parameter that enters the level model as offset or coefficient (start_level, eff_in, inflow) is read by "
              "Storage.fill_level", floor=3)
rule("C05.e", "level band: upper minus lower right-hand side is exactly size, both last entries are end_level - start_level - "
              "inflow, in the plain and in the block variant", floor=4)
rule("C05.g", "inside the block loop the global cumulative inflow is used only to build a block-relative copy", floor=1)
rule("C05.k", "time blocks: a block boundary that coincides with the end of the storage's grid does not start a block (date_range includes "
              "its end; 'last time point <= boundary' then is the last step, which would become a block of its own)", floor=1,
     props=["C05", "C14"])
rule("C05.o", "reported fill level: every per-step contribution (dispatch, inflow) enters the per-step vector before it is cumulated over the "
              "horizon; a cumulated series is not modified on a subset of steps afterwards (what is added inside the window would not be "
              "carried beyond it)", floor=1, props=["C05", "C08"])
rule("C05.h", "the holding-duration indicator multiplies -size (binary 0 => level <= 0), not the shifted upper bound", floor=1)

LEVEL_PARAMS = {
    "start_level": "offset of the level (b and b_min carry -start_level)",
    "eff_in": "coefficient of charged volume (A * eff_in on the charge columns)",
    "inflow": "cumulative inflow is part of the level (b and b_min carry -cumsum(inflow*dt))",
    "block_size": "with time blocks the level restarts at the start level in every block (one lower-triangular band per block)",
}


class _Arm:
    """Tiny interpreter for one arm of the band construction."""

    def __init__(self, atom_of):
        self.env, self.last = {}, {}
        self.ev = lf.LinEval(self._atom, self.env)
        self._atom_of = atom_of

    def _atom(self, e):
        if isinstance(e, ast.Subscript) and isinstance(e.value, ast.Name) and isinstance(self.env.get(e.value.id), tuple):
            return None
        return self._atom_of(e)

    def value(self, e):
        # np.hstack((x, y)) -> ('stack', [forms])
        if isinstance(e, ast.Call) and au.method_name(e) in ("hstack", "concatenate") and e.args and isinstance(e.args[0], (ast.Tuple, ast.List)):
            parts = []
            for x in e.args[0].elts:
                v = self.value(x)
                if isinstance(v, tuple):
                    parts.extend(v[1])
                else:
                    parts.append(v)
            return ("stack", parts)
        if isinstance(e, ast.Name) and isinstance(self.env.get(e.id), tuple):
            return self.env[e.id]
        if isinstance(e, ast.Subscript) and isinstance(e.value, ast.Name) and isinstance(self.env.get(e.value.id), tuple):
            sl = e.slice
            if isinstance(sl, ast.Slice) and (sl.lower is None or au.const_num(sl.lower) == 0):
                return self.env[e.value.id][1][0]
            return None
        if isinstance(e, ast.UnaryOp) and isinstance(e.op, ast.USub):
            v = self.value(e.operand)
            return lf.scale(v, -1) if not isinstance(v, tuple) else None
        return self.ev.ev(e)

    def run(self, stmts):
        for st in stmts:
            if isinstance(st, ast.Assign) and len(st.targets) == 1:
                t = st.targets[0]
                if isinstance(t, ast.Name):
                    self.env[t.id] = self.value(st.value)
                    self.last.pop(t.id, None)
                elif isinstance(t, ast.Subscript) and isinstance(t.value, ast.Name):
                    v = t.value.id
                    if au.const_num(t.slice) == -1:
                        self.last[v] = self.value(st.value)
                    elif isinstance(st.value, ast.Name) and st.value.id in self.env:
                        self.env[v] = self.env.get(st.value.id)
                        if st.value.id in self.last:
                            self.last[v] = self.last[st.value.id]
                        else:
                            self.last.pop(v, None)
                    elif isinstance(t.slice, ast.Slice):
                        self.env[v] = self.value(st.value)
            elif isinstance(st, ast.AugAssign) and isinstance(st.target, ast.Name) and isinstance(st.op, (ast.Sub, ast.Add)):
                cur = self.env.get(st.target.id)
                if not isinstance(cur, tuple):
                    self.env[st.target.id] = lf.add(cur, self.value(st.value), -1 if isinstance(st.op, ast.Sub) else 1)
            elif isinstance(st, ast.If):
                if st.orelse:
                    a, b = _Arm(self._atom_of), _Arm(self._atom_of)
                    a.env.update(self.env); a.last.update(self.last)
                    b.env.update(self.env); b.last.update(self.last)
                    a.run(st.body); b.run(st.orelse)
                    for k in set(a.env) | set(b.env):
                        self.env[k] = a.env.get(k) if a.env.get(k) == b.env.get(k) else None
                    for k in set(a.last) | set(b.last):
                        self.last[k] = a.last.get(k) if a.last.get(k) == b.last.get(k) else None
                else:
                    self.run(st.body)   # conditional re-basing (if a > 0: blk -= cum[a-1]) is taken as applied
            elif isinstance(st, (ast.For, ast.While)):
                self.run(st.body)
            elif isinstance(st, ast.Try):
                pass
        return self


rule("C05.u", "the reported fill level contains start level, charge, discharge and inflow on every path: Storage.fill_level has no return "
              "before the block that adds the accumulated inflow (a shortcut for 'nothing dispatched' would report a level without inflow)", floor=1)
rule("C05.v", "the reported fill level of a storage with its own coarser frequency rises with the inflow in every fine step: the inflow block of "
              "Storage.fill_level distinguishes restricted.I_minor_in_major (fine steps, fine step lengths) from the plain restricted grid", floor=1,
     props=["C05", "C13"])
rule("C05.q", "reported fill level of a storage with a coarser frequency: a variable has one mapping row per fine step, each with its share of "
              "the variable as dispatch factor - the level is accumulated over *every* row, weighted with that factor (and the inflow enters every "
              "fine step); reduced to one row per variable the whole volume of a coarse step is booked at its first fine step", floor=2,
     props=["C05", "C13"])
rule("C05.p", "the series reported for an asset (charge, discharge, internal variables, fill level) are read off the solution: a column of the "
              "report is accumulated from res.x (times the dispatch factor) or taken from fill_level(); no reported column is recomputed from "
              "other reported columns afterwards (netting charge against discharge hides simultaneous charging and discharging: start level "
              "+ efficiency x charge - discharge no longer gives the level)", floor=2, props=["C05", "C01"])


@analysis("storage", ["C05.a", "C05.e", "C05.g", "C05.h", "C05.k", "C05.o", "C05.p", "C05.q", "C05.u", "C05.v"])
def run(ctx):
    p = ctx.p
    sto = p.cls("Storage")
    setup = sto.methods.get("setup_optim_problem")
    fill = sto.methods.get("fill_level")
    ctx.require(setup is not None and fill is not None, "Storage.setup_optim_problem / fill_level vanished")

    # ================================================================= C05.a
    used_in_setup = {n.attr for n in au.walk_local(setup.node) if isinstance(n, ast.Attribute) and au.base_name(n) == "self"}
    read_in_fill = {n.attr for n in au.walk_local(fill.node) if isinstance(n, ast.Attribute) and au.base_name(n) == "self" and isinstance(n.ctx, ast.Load)}
    for prm, why in sorted(LEVEL_PARAMS.items()):
        ctx.require(prm in used_in_setup, "Storage.setup_optim_problem no longer uses self.%s (level-parameter table is stale)" % prm)
        ctx.ob("C05.a", fill, "self.%s" % prm, prm in read_in_fill,
               "the level rows depend on %s (%s) but the reported fill level never reads it: report and model disagree whenever it "
               "is non-trivial (inflow 1/h: reported ..., -1, 0; physical ..., 22, 24)" % (prm, why), node=fill.node)

    # ================================================================= locate the band construction
    cum_names = set()
    for st in au.walk_stmts(setup.body):
        if isinstance(st, ast.Assign) and isinstance(st.value, ast.Call) and au.method_name(st.value) == "cumsum" and \
                any(au.path(x) == "self.inflow" for x in au.walk_local(st.value)):
            cum_names |= set(au.target_names(st.targets[0]))
    ctx.require(cum_names, "cumulative inflow (np.cumsum over self.inflow) not found in Storage.setup_optim_problem")

    def atom_of(e):
        pth = au.path(e)
        if pth in ("self.size", "self.start_level", "self.end_level"):
            return pth[5:]
        if isinstance(e, ast.Name) and e.id in cum_names:
            return "cuminflow"
        if isinstance(e, ast.Subscript) and isinstance(e.value, ast.Name) and e.value.id in cum_names:
            if isinstance(e.slice, ast.Slice):
                return "cuminflow"
            return "cuminflow[%s]" % au.U(e.slice)
        return None

    hst = None
    for i, st in enumerate(setup.body):
        if isinstance(st, ast.Assign) and isinstance(st.value, ast.Call) and au.method_name(st.value) == "hstack" and st.value.args \
                and isinstance(st.value.args[0], (ast.Tuple, ast.List)) and len(st.value.args[0].elts) == 2 \
                and all(isinstance(x, ast.Name) for x in st.value.args[0].elts) and isinstance(st.targets[0], ast.Name) \
                and st.targets[0].id == st.value.args[0].elts[0].id:
            # paired with cType = 'U'*n + 'L'*n nearby
            for st2 in setup.body[i: i + 4]:
                if isinstance(st2, ast.Assign) and role(st2.targets[0], local_roles(setup)) == "cType":
                    letters = [au.const_str(x) for x in au.walk_local(st2.value) if au.const_str(x)]
                    if letters[:2] in (["U", "L"], ["L", "U"]):
                        hst = (st, letters[0] == "U")
    if hst is None:
        ctx.ob("C05.e", setup, "level band", None, "the pairing b = hstack((upper, lower)) / cType = 'U'*n + 'L'*n was not found")
        return
    hs, upper_first = hst
    n1, n2 = [x.id for x in hs.value.args[0].elts]
    U, L = (n1, n2) if upper_first else (n2, n1)
    band_if = None
    for st in setup.body:
        if st is hs:
            break
        if isinstance(st, ast.If) and st.orelse:
            assigned = [{nm for s2 in au.walk_stmts(arm) for t in au.stmt_targets(s2) for nm in ([au.base_name(t)] if au.base_name(t) else [])}
                        for arm in (st.body, st.orelse)]
            if all(U in a and L in a for a in assigned):
                band_if = st
    if band_if is None:
        ctx.ob("C05.e", setup, "level band", None, "no if/else whose arms both define the upper and the lower right-hand side")
        return
    arms = {}
    for label, arm in (("plain" if "block_size" in au.U(band_if.test) and au.none_test(band_if.test) and au.none_test(band_if.test)[1] else "arm 1", band_if.body),
                       ("blocks" if "block_size" in au.U(band_if.test) else "arm 2", band_if.orelse)):
        it = _Arm(atom_of).run(arm)
        arms[label] = it
        uv, lv, ul, ll = it.env.get(U), it.env.get(L), it.last.get(U), it.last.get(L)
        if any(isinstance(x, tuple) for x in (uv, lv)):
            uv = lv = None
        diff = lf.add(uv, lv, -1)
        ok = None if diff is None else (diff == {"size": 1})
        ctx.ob("C05.e", setup, "%s: upper - lower right-hand side" % label, ok,
               "upper (%s) minus lower (%s) right-hand side is %s, not size: the admissible band for the level is not [0, size]"
               % (lf.show(uv), lf.show(lv), lf.show(diff)), node=arm[0], ok_detail="= size")
        ok2 = None if (ul is None or ll is None) else (ul == ll)
        ctx.ob("C05.e", setup, "%s: last entries agree" % label, ok2,
               "last upper entry (%s) and last lower entry (%s) differ: the end level is not pinned" % (lf.show(ul), lf.show(ll)),
               node=arm[0], ok_detail=lf.show(ul))
        if ul is not None:
            ok3 = ul.get("end_level") == 1 and ul.get("start_level") == -1
            ctx.ob("C05.e", setup, "%s: last entry = end_level - start_level - inflow" % label, ok3,
                   "the last right-hand side is %s; the level at the last step must equal end_level, i.e. the shifted value "
                   "end_level - start_level - cumulative inflow" % lf.show(ul), node=arm[0], ok_detail=lf.show(ul))
        if lv is not None and not isinstance(lv, tuple):
            ok4 = lv.get("start_level") == -1 and lv.get("cuminflow") == -1 and "size" not in lv
            ctx.ob("C05.e", setup, "%s: lower right-hand side = -start_level - inflow" % label, ok4,
                   "the lower right-hand side is %s; level >= 0 means A x >= -start_level - cumulative inflow" % lf.show(lv), node=arm[0],
                   ok_detail=lf.show(lv))

    # ================================================================= C05.g block-local cumulation
    n_loops = 0
    for loop in [s for s in au.walk_stmts(setup.body) if isinstance(s, ast.For)]:
        loopvars = set(au.target_names(loop.target))
        block_store = any(isinstance(s, ast.Assign) and isinstance(s.targets[0], ast.Subscript) and isinstance(s.targets[0].slice, ast.Tuple)
                          and len(s.targets[0].slice.elts) == 2 and all(isinstance(x, ast.Slice) for x in s.targets[0].slice.elts)
                          and (au.names_in(s.targets[0].slice) & loopvars) for s in loop.body)
        if not block_store:
            continue
        n_loops += 1
        local_copies = set()
        lowers = {}
        wrong_base = []
        bad = []
        rebased = set()
        for s in au.walk_stmts(loop.body):
            uses = [n for n in au.walk_own(s) if isinstance(n, ast.Name) and n.id in cum_names and isinstance(n.ctx, ast.Load)]
            if not uses:
                continue
            if isinstance(s, ast.Assign) and isinstance(s.targets[0], ast.Name):
                v = s.value
                while isinstance(v, ast.Call) and au.method_name(v) in ("copy", "asarray", "array") :
                    v = v.func.value if isinstance(v.func, ast.Attribute) and au.dotted(v.func.value) not in ("np", "numpy") else (v.args[0] if v.args else v)
                    if not isinstance(v, (ast.Call, ast.Subscript)):
                        break
                if isinstance(v, ast.Subscript) and isinstance(v.value, ast.Name) and v.value.id in cum_names and isinstance(v.slice, ast.Slice) \
                        and (au.names_in(v.slice) & loopvars):
                    local_copies.add(s.targets[0].id)
                    lowers[s.targets[0].id] = v.slice.lower
                    continue
                if isinstance(v, ast.Call) and au.method_name(v) == "cumsum":
                    local_copies.add(s.targets[0].id)
                    rebased.add(s.targets[0].id)
                    continue
            if isinstance(s, ast.AugAssign) and isinstance(s.op, ast.Sub) and isinstance(s.target, ast.Name) and s.target.id in local_copies \
                    and isinstance(s.value, ast.Subscript) and isinstance(s.value.value, ast.Name) and s.value.value.id in cum_names \
                    and (au.names_in(s.value.slice) & loopvars):
                rebased.add(s.target.id)
                # prefix sums: the block [a, b) of a cumulative sum C is re-based with C[a - 1], the total *before* the block
                lo = lowers.get(s.target.id)
                ev = lf.LinEval(lambda e: e.id if isinstance(e, ast.Name) else None)
                f_idx, f_lo = ev.ev(s.value.slice), (ev.ev(lo) if lo is not None else {})
                if f_idx is not None and f_lo is not None:
                    off = lf.const_of(lf.add(f_idx, f_lo, -1))
                    if off != -1:
                        wrong_base.append((s, off))
                continue
            bad.append((s, uses[0]))
        not_rebased = local_copies - rebased
        ok = not bad and not not_rebased and not wrong_base
        detail = ""
        if wrong_base:
            detail = "the block copy starts at the block's first step but is re-based with the cumulative inflow at offset %s from " \
                     "that step instead of -1 (the total *before* the block): every block after the first loses / gains the inflow of " \
                     "one step, so its level ends above / below the end level and may exceed the size (line %s: %s)" % (
                         wrong_base[0][1], wrong_base[0][0].lineno, au.short(wrong_base[0][0], 60))
        if bad and not wrong_base:
            detail = "the cumulative inflow since the start of the horizon is used for the rows of a block (%s): every block after " \
                     "the first is charged with all inflow before it - with two daily blocks, inflow 1/h and rates 5/h the problem " \
                     "is infeasible" % "; ".join("line %s: %s" % (s.lineno, au.short(s, 60)) for s, _ in bad[:3])
        elif not_rebased:
            detail = "the block-local copy %s is sliced from the global cumulative inflow but never re-based (minus its value before " \
                     "the block)" % sorted(not_rebased)
        ctx.ob("C05.g", setup, "block loop `for %s in %s`" % (au.U(loop.target), au.short(loop.iter, 40)), ok, detail, node=(wrong_base[0][0] if wrong_base else (bad[0][0] if bad else loop)),
               ok_detail="global cumulative inflow only used to build a re-based block copy (%s)" % ", ".join(sorted(local_copies)))
    if n_loops == 0:
        ctx.ob("C05.g", setup, "block loop", None, "no loop filling diagonal blocks found (block variant rewritten?)")

    # ================================================================= C05.o cumulate last
    fl = p.fn_opt("Storage.fill_level")
    if fl is None:
        ctx.ob("C05.o", "Storage", "fill_level", None, "Storage.fill_level not found")
    else:
        cums = [st for st in au.walk_stmts(fl.body) if isinstance(st, ast.Assign) and isinstance(st.targets[0], ast.Name)
                and any(isinstance(c, ast.Call) and au.method_name(c) == "cumsum" and st.targets[0].id in au.names_in(c) for c in au.walk_local(st.value))]
        if not cums:
            ctx.ob("C05.o", fl, "cumulative sum of the per-step changes", None, "no `x = x.cumsum()` found")
        for st in cums:
            nm = st.targets[0].id
            later = [s2 for s2 in au.walk_stmts(fl.body) if s2.lineno > st.lineno and isinstance(s2, (ast.Assign, ast.AugAssign))
                     and any(isinstance(t0, ast.Subscript) and au.base_name(t0) == nm for t0 in au.stmt_targets(s2))]
            ctx.ob("C05.o", fl, "%s is cumulated after all per-step contributions" % nm, not later,
                   "`%s` changes the cumulated level on a subset of steps (the asset's window): the amount added there is not carried to the "
                   "steps behind the window, so the reported level of a storage with inflow drops by the total inflow at the end of its "
                   "window - in a step where neither dispatch nor inflow happens (level -8 instead of 4 after the window)" % (
                       au.short(later[0], 70) if later else ""), node=(later[0] if later else st))

    # ================================================================= C05.k block boundaries
    found_k = False
    ff = ctx.flow(setup)
    for loop in [s for s in au.walk_stmts(setup.body) if isinstance(s, ast.For) and isinstance(s.target, ast.Name)]:
        it = ctx.resolve(setup, loop.iter, loop)
        if not (isinstance(it, ast.Call) and au.method_name(it) == "date_range"):
            continue
        end = au.kwarg(it, "end")
        if end is None or not au.U(end).endswith(".end"):
            continue
        lv = loop.target.id
        cmps = [c for c in au.walk_local(loop) if isinstance(c, ast.Compare) and len(c.ops) == 1 and isinstance(c.ops[0], (ast.LtE, ast.GtE))
                and any(isinstance(x, ast.Attribute) and x.attr == "timepoints" for x in au.walk_local(c)) and lv in au.names_in(c)]
        if not cmps:
            continue
        found_k = True
        incl = au.kwarg(it, "inclusive") or au.kwarg(it, "closed")
        open_right = incl is not None and au.const_str(incl) == "left"
        guarded = any(isinstance(s2, ast.If) and lv in au.names_in(s2.test) and any(isinstance(x, ast.Attribute) and x.attr == "end" for x in au.walk_local(s2.test))
                      and any(isinstance(x, (ast.Break, ast.Continue)) for x in au.walk_stmts(s2.body)) and s2.lineno <= cmps[0].lineno
                      for s2 in au.walk_stmts(loop.body))
        ctx.ob("C05.k", setup, "block boundaries include the end of the grid", open_right or guarded,
               "the block boundaries are date_range(..., end=%s), which contains the end date itself whenever the grid ends on a block "
               "boundary (the normal case: daily blocks, grid ending at midnight); the start index of a block is the last time point <= "
               "boundary, for the end date that is the last step of the grid - it becomes a one-step block: the level has to go from "
               "start level to end level within that single step (start 0, end 5, rate 1: infeasible) and the step before it must already "
               "end at the end level; under a split optimisation this happens at the end of every interval (78.01 unsplit vs 77.76 split "
               "although nothing couples the intervals)" % au.short(end, 40), node=cmps[0])
    if not found_k:
        ctx.ob("C05.k", setup, "block boundaries", None, "the loop over block boundary dates was not found")

    # ================================================================= C05.h indicator rows
    msd_if = None
    for st in setup.body:
        if isinstance(st, ast.If) and any(au.path(x) == "self.max_store_duration" for x in au.walk_local(st.test)):
            msd_if = st
    if msd_if is None:
        ctx.ob("C05.h", setup, "holding-duration block", None, "no block guarded by self.max_store_duration found")
        return
    # forms valid at that point: both arms of the band agree?
    env = {}
    a1, a2 = list(arms.values())
    for k in set(a1.env) | set(a2.env):
        env[k] = a1.env.get(k) if a1.env.get(k) == a2.env.get(k) else None
    # the lower form w/o end level etc. is fine; after the band: X = hstack((U, L))
    it = _Arm(atom_of)
    it.env.update(env)
    # replay top-level statements between the band and the holding-duration block (hstack, binary blocks ...)
    started = False
    for st in setup.body:
        if st is band_if:
            started = True
            continue
        if st is msd_if:
            break
        if started:
            it.run([st])
    diags = []
    for s in au.walk_stmts(msd_if.body):
        for n in au.walk_own(s):
            if isinstance(n, ast.Call) and au.method_name(n) == "diags" and n.args:
                diags.append((s, n))
        it.run([s]) if s in msd_if.body else None
    # evaluate the diags arguments in the environment *before* the block's own statements changed b
    it2 = _Arm(atom_of)
    it2.env.update(env)
    started = False
    for st in setup.body:
        if st is band_if:
            started = True
            continue
        if st is msd_if:
            break
        if started:
            it2.run([st])
    found = False
    for s, d in diags:
        # interpret statements of the block up to s
        it3 = _Arm(atom_of)
        it3.env.update(it2.env)
        for s0 in msd_if.body:
            if s0 is s or any(s is x for x in au.walk_stmts([s0])):
                break
            it3.run([s0])
        form = it3.value(d.args[0])
        if isinstance(form, tuple):
            form = None
        if form is not None and not form:
            continue
        found = True
        ok = None if form is None else (form == {"size": -1})
        ctx.ob("C05.h", setup, "coefficient of the 'is filled' binary: %s" % au.short(d, 60), ok,
               "the binary multiplies %s; with level = start_level + inflow + (A x) the row must read level <= size * binary, i.e. "
               "coefficient -size. With the shifted bound, binary 0 still allows any level up to start_level + inflow: "
               "max_store_duration=3, start level 2 keeps the level non-zero for 12 hours" % lf.show(form), node=d,
               ok_detail="- size")
    if not found:
        ctx.ob("C05.h", setup, "coefficient of the 'is filled' binary", None, "no sp.diags(...) coefficient block found in the holding-duration block")


    # ================================================================= C05.p reported series are read off the solution
    xo = p.fn_opt("io.extract_output")
    if xo is None:
        ctx.ob("C05.p", "io", "report columns", None, "io.extract_output not found")
    else:
        # frames that are filled column by column: F[<key>] = <initial constant>
        frames = {}
        for st in au.walk_stmts(xo.body):
            if isinstance(st, ast.Assign) and len(st.targets) == 1 and isinstance(st.targets[0], ast.Subscript) and isinstance(st.targets[0].value, ast.Name) \
                    and isinstance(st.value, ast.Constant) and not isinstance(st.targets[0].slice, (ast.Slice, ast.Tuple)):
                frames.setdefault(st.targets[0].value.id, 0)
                frames[st.targets[0].value.id] += 1
        loc_filled = {au.base_name(t0) for st in au.walk_stmts(xo.body) if isinstance(st, (ast.Assign, ast.AugAssign)) for t0 in au.stmt_targets(st)
                      if isinstance(t0, ast.Subscript) and isinstance(t0.value, ast.Attribute) and t0.value.attr in ("loc", "iloc", "at")}
        frames = {f for f, k in frames.items() if k >= 1 and f in loc_filled}
        n_p = 0
        for st in au.walk_stmts(xo.body):
            if not isinstance(st, (ast.Assign, ast.AugAssign)):
                continue
            for t0 in au.stmt_targets(st):
                base = t0
                while isinstance(base, (ast.Subscript, ast.Attribute)):
                    base = base.value
                if not (isinstance(t0, ast.Subscript) and isinstance(base, ast.Name) and base.id in frames):
                    continue
                if isinstance(st.value, ast.Constant):
                    continue
                n_p += 1
                reads = [x for x in au.walk_local(st.value) if isinstance(x, ast.Name) and x.id == base.id and isinstance(x.ctx, ast.Load)]
                # re-scaling a selection of the frame in place (F.loc[s] = F.loc[s] / n) reads what it writes: not another column
                same = [y for y in au.walk_local(st.value) if isinstance(y, ast.Subscript) and au.U(y) == au.U(t0)]
                if same and len(reads) == len(same):
                    reads = []
                # through locals: net = F[a] + F[b]; F[a] = maximum(0, net)
                if not reads:
                    for x in au.walk_local(st.value):
                        if isinstance(x, ast.Name) and isinstance(x.ctx, ast.Load):
                            r = ctx.resolve(xo, x, st)
                            if r is not x and any(isinstance(y, ast.Name) and y.id == base.id for y in au.walk_local(r)):
                                reads.append(x)
                self_acc = isinstance(st, ast.AugAssign)
                ctx.ob("C05.p", xo, au.short(st, 80), not reads or self_acc and not reads,
                       "the reported column %s is computed from other columns of the report (%s), not from the solution: what the solver decided "
                       "per variable is no longer what is reported - a storage that charges and discharges in the same step (two nodes, efficiency, "
                       "negative prices) is reported with the net flow only; start level + efficiency x charge - discharge deviates from the level "
                       "by 1.2" % (au.short(t0, 40), au.short(reads[0], 30) if reads else ""), node=st)
        if n_p == 0:
            ctx.ob("C05.p", xo, "report columns", None, "no column-wise filled report frame found")


    # ================================================================= C05.u one way out of fill_level: after charge, discharge and inflow
    flu = p.fn_opt("Storage.fill_level")
    if flu is None:
        ctx.ob("C05.u", "Storage", "fill_level", None, "Storage.fill_level not found")
    else:
        infl = [x for x in au.walk_stmts(flu.body) if isinstance(x, ast.If) and any(
            isinstance(y, ast.Attribute) and y.attr == "inflow" and au.U(y.value) == "self" for y in ast.walk(x.test))]
        rets = [x for x in au.walk_stmts(flu.body) if isinstance(x, ast.Return)]
        if not infl:
            ctx.ob("C05.u", flu, "returns come after the inflow term", None, "no `if self.inflow ...:` block found in Storage.fill_level")
        else:
            last = max(getattr(x, "end_lineno", x.lineno) for x in infl)
            early = [r for r in rets if r.lineno < last and not any(r is y for b in infl for y in ast.walk(b))]
            ctx.ob("C05.u", flu, "returns come after the inflow term", not early,
                   "fill_level returns at %s before the accumulated inflow is added: on that path (an idle storage, an empty selection ...) the "
                   "reported level stays at the start level while the level in the restrictions rises with the inflow (reported 10, physical 58 "
                   "at the last step)" % "; ".join(p.where(r) for r in early[:3]), node=(early[0] if early else flu.node))

    # ================================================================= C05.v inflow of a storage with coarser frequency
    if flu is not None and infl:
        fine = [x for b in infl for x in ast.walk(b) if isinstance(x, ast.If) and x is not b and "I_minor_in_major" in au.U(x.test)]
        uses = [x for b in infl for x in ast.walk(b) if isinstance(x, ast.Attribute) and x.attr == "I_minor_in_major" and isinstance(x.ctx, ast.Load)]
        ctx.ob("C05.v", flu, "inflow enters in every fine step of a coarse interval", bool(fine) and len(uses) >= 2,
               "the inflow block of fill_level has no branch for a storage with its own coarser frequency (restricted.I_minor_in_major): "
               "restricted.I holds the first fine step of each coarse step and restricted.dt its whole length, so the inflow of a coarse step is "
               "booked at its first fine step - the reported level is too high inside every coarse step and may exceed the size (reported 5.5, "
               "physical 2.5; max 13 at size 10)", node=infl[0])

    # ================================================================= C05.q every row of a variable, weighted
    flq = p.fn_opt("Storage.fill_level")
    if flq is None:
        ctx.ob("C05.q", "Storage", "fill_level", None, "Storage.fill_level not found")
    else:
        ffq = ctx.flow(flq)
        loops = [lp for lp in au.walk_stmts(flq.body) if isinstance(lp, ast.For) and isinstance(lp.iter, ast.Call) and au.method_name(lp.iter) == "iterrows"
                 and any(isinstance(x, ast.AugAssign) for x in au.walk_stmts(lp.body))]
        if not loops:
            ctx.ob("C05.q", flq, "accumulation over mapping rows", None, "no loop over <mapping>.iterrows() that accumulates the level found")
        for lp in loops:
            frame = lp.iter.func.value
            reduced = None
            seen, todo = set(), [(frame, lp)]
            while todo:
                e, at = todo.pop()
                for x in au.walk_local(e):
                    if isinstance(x, ast.Call) and au.method_name(x) in ("duplicated", "drop_duplicates", "first", "groupby", "unique"):
                        reduced = x
                    if isinstance(x, ast.Name) and isinstance(x.ctx, ast.Load) and (x.id, id(at)) not in seen:
                        seen.add((x.id, id(at)))
                        for d in ffq.defs(x.id, at):
                            if d.kind == "assign" and d.value is not None and len(seen) < 40:
                                todo.append((d.value, d.node))
            ctx.ob("C05.q", flq, "rows visited by %s" % au.short(lp, 50).split(":")[0], reduced is None,
                   "the level is accumulated over a frame reduced to one row per variable (%s): a storage with a coarser frequency spreads each "
                   "variable over the fine steps of its interval (one row each), the report books the whole volume at the first fine step - reported "
                   "[24, 24, 24 ...] where the physical level is [1, 2, 3 ...]" % (au.short(reduced, 50) if reduced is not None else ""), node=lp,
                   key="fill level is accumulated over every mapping row")
            rowvar = lp.target.elts[1].id if isinstance(lp.target, ast.Tuple) and len(lp.target.elts) == 2 and isinstance(lp.target.elts[1], ast.Name) else None
            accs = [x for x in au.walk_stmts(lp.body) if isinstance(x, ast.AugAssign)]
            weighted = all(any((isinstance(y, ast.Subscript) and au.const_str(y.slice) == "disp_factor" and au.base_name(y) == rowvar) or
                               (isinstance(y, ast.Attribute) and y.attr == "disp_factor" and au.base_name(y) == rowvar) for y in au.walk_local(a.value)) for a in accs)
            ctx.ob("C05.q", flq, "contribution of a row", weighted if rowvar else None,
                   "a row's contribution to the level does not carry the row's dispatch factor: with several rows per variable (coarser frequency: "
                   "shares dt_fine / dt_coarse) every row would add the whole variable", node=(accs[0] if accs else lp),
                   key="a row contributes its share (dispatch factor) of the variable")
