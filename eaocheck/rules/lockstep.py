"""E4 - lockstep (pairing) rules, syntactic guard-context form (C07.c, C07.d).

Carriers that must grow together:
  VAR-lockstep   c, l, u   (one entry per variable)
  ROW-lockstep   rows of A, b, letters of cType   (one entry per row)

Every growth event `x = hstack((x, new))` / `x += new` of a carrier is recorded with its *guard context*: the list of
enclosing `if` tests with the arm taken.  Two events in the two arms of one `if` (equal context otherwise) count as one
event at the parent context.  Within one function the multisets of guard contexts of the carriers of a group must be equal:
a carrier that grows under a wider or narrower condition than its partners has a different length on some option
combination - exactly the combinations the tests do not sample.  Growth that happens only where costs_only is true is
ignored (the cost-only path needs c alone).  Carriers are recognised by role (carriers.py), never by local name.
"""
from __future__ import annotations
import ast
from .. import astutil as au
from ..carriers import local_roles, role
from ..tables import rule
from . import analysis

rule("C07.c", "VAR-lockstep: within a function c, l and u grow under the same guard contexts (one entry per variable on every option "
              "combination)", floor=5)
rule("C07.d", "ROW-lockstep: within a function the rows of A, b and the letters of cType grow under the same guard contexts", floor=8,
     props=["C07", "C03"])

rule("C20.g", "order book: the rows of the orders are collected by init-or-append - the collected frame is (re)initialised only "
              "while it is still empty, whatever the current order contributes", floor=1, props=["C20", "C07"])
rule("C07.r", "init-or-append inside a loop: an accumulator defined before the loop is re-initialised only under a condition that "
              "implies it is still empty", floor=0)

rule("C01.j", "a report column that is accumulated with += inside a loop over mapping rows is reset unconditionally right before that "
              "loop, in every pass that selects the rows: a pass that selects the same rows again (an asset listing one node twice) "
              "must not add them a second time", floor=2)

rule("C14.l", "split optimisation: the results of the intervals are merged key by key without assuming that every interval has the same kinds "
              "of restrictions - a dictionary of the combined result is read with a key taken from an interval's dictionary only under a "
              "membership test", floor=2)
rule("C01.m", "report: `frame.loc[labels, col] += values` adds up only when `labels` is one label; with an array of labels repeated "
              "labels do not accumulate (the last one wins) - accumulation over mapping rows goes row by row, or through a grouped sum", floor=2)
rule("C05.n", "the series reported per storage (charge, discharge, fill level) are built from the rows of *all* nodes of the storage: a "
              "selector on the node column inside the storage-specific report block names every node (isin(node_names)), never one slot",
     floor=1)

rule("C04.h", "split optimisation: the value and the solution vector of the combined result are extended for every interval under the "
              "same conditions (an interval whose solution is appended also contributes its value)", floor=1, props=["C04", "C14"])

VAR = ("c", "l", "u")
ROW = ("A", "b", "cType")


def _growth(st, roles):
    """(role, appended expr list) if st grows a carrier from itself, else None."""
    if isinstance(st, ast.AugAssign) and isinstance(st.op, ast.Add):
        r = role(st.target, roles)
        if r in VAR + ROW:
            return r, [st.value]
        return None
    if not (isinstance(st, ast.Assign) and len(st.targets) == 1):
        return None
    t = st.targets[0]
    r = role(t, roles)
    if r not in VAR + ROW:
        return None
    v = st.value
    if isinstance(v, ast.Call) and au.method_name(v) in ("hstack", "vstack", "concatenate", "append") and v.args:
        a0 = v.args[0]
        parts = list(a0.elts) if isinstance(a0, (ast.Tuple, ast.List)) else list(v.args[:2])
        if len(parts) >= 2 and au.U(parts[0]) == au.U(t):
            if r == "A" and au.method_name(v) == "hstack":
                return None          # new columns, not new rows
            return r, parts[1:]
    if isinstance(v, ast.BinOp) and isinstance(v.op, ast.Add) and au.U(v.left) == au.U(t):
        return r, [v.right]
    return None


def _context(p, st, fn):
    ctx_ = []
    child = st
    for anc in p.ancestors(st):
        if anc is fn.node:
            break
        if isinstance(anc, ast.If):
            in_body = any(child is x for x in anc.body)
            test, pol = au.strip_not(anc.test)       # `if not c: A else: B` is `if c: B else: A`
            ctx_.append((au.U(test), in_body == pol))
        child = anc
    return tuple(reversed(ctx_))


def _merge(events):
    """Events in both arms of one `if` (equal context otherwise) become one event at the parent context."""
    ev = list(events)
    changed = True
    while changed:
        changed = False
        for i, a in enumerate(ev):
            if not a:
                continue
            for j, b in enumerate(ev):
                if j <= i or not b or len(a) != len(b):
                    continue
                if a[:-1] == b[:-1] and a[-1][0] == b[-1][0] and a[-1][1] != b[-1][1]:
                    ev = [x for k, x in enumerate(ev) if k not in (i, j)] + [a[:-1]]
                    changed = True
                    break
            if changed:
                break
    return sorted(ev)


def _costs_only_true(c):
    for test, arm in c:
        t = test.replace(" ", "")
        if (t == "costs_only" and arm) or (t in ("notcosts_only",) and not arm):
            return True
    return False


def _acc_grows(st, name):
    if isinstance(st, ast.AugAssign) and isinstance(st.target, ast.Name) and st.target.id == name:
        return True
    if isinstance(st, ast.Assign) and len(st.targets) == 1 and isinstance(st.targets[0], ast.Name) and st.targets[0].id == name:
        return name in au.names_in(st.value)
    if isinstance(st, ast.Expr) and isinstance(st.value, ast.Call) and au.method_name(st.value) in ("append", "extend") \
            and au.base_name(st.value.func) == name:
        return True
    return False


def _implies_empty(test, name, counters):
    """Does `test` being true imply that accumulator `name` is still empty (or that this is the first iteration)?"""
    t = test
    if isinstance(t, ast.BoolOp) and isinstance(t.op, ast.And):
        return any(_implies_empty(v, name, counters) for v in t.values)
    if isinstance(t, ast.BoolOp) and isinstance(t.op, ast.Or):
        return all(_implies_empty(v, name, counters) for v in t.values)
    if isinstance(t, ast.UnaryOp) and isinstance(t.op, ast.Not):
        o = t.operand
        if isinstance(o, ast.Name) and o.id == name:
            return True                                            # not acc
        if isinstance(o, ast.Call) and isinstance(o.func, ast.Name) and o.func.id == "len" and o.args and au.U(o.args[0]) == name:
            return True                                            # not len(acc)
        return False
    if isinstance(t, ast.Attribute) and t.attr == "empty" and au.U(t.value) == name:
        return True
    nt = au.none_test(t)
    if nt is not None:
        return isinstance(nt[0], ast.Name) and nt[0].id == name and nt[1]
    if isinstance(t, ast.Compare) and len(t.ops) == 1:
        l, o, r = t.left, t.ops[0], t.comparators[0]

        def is_size(e):
            if isinstance(e, ast.Call) and isinstance(e.func, ast.Name) and e.func.id == "len" and e.args and au.U(e.args[0]) == name:
                return True
            return isinstance(e, ast.Subscript) and isinstance(e.value, ast.Attribute) and e.value.attr == "shape" and au.U(e.value.value) == name \
                and au.const_num(e.slice) == 0
        for a, b, op in ((l, r, o), (r, l, {ast.Lt: ast.Gt(), ast.Gt: ast.Lt(), ast.LtE: ast.GtE(), ast.GtE: ast.LtE()}.get(type(o), o))):
            if is_size(a) and au.const_num(b) is not None:
                k = au.const_num(b)
                if (isinstance(op, ast.Eq) and k == 0) or (isinstance(op, ast.Lt) and k == 1) or (isinstance(op, ast.LtE) and k == 0):
                    return True
            if isinstance(a, ast.Name) and a.id in counters and isinstance(op, ast.Eq) and au.const_num(b) == counters[a.id]:
                return True                                        # first iteration
    return False


def _accumulators(ctx):
    """C20.g / C07.r"""
    p = ctx.p
    n = 0
    for fn in sorted(p.all_functions(), key=lambda f: f.qualname):
        if fn.parent is not None:
            continue
        rid = "C20.g" if (fn.cls is not None and fn.cls.name == "OrderBook") else "C07.r"
        for lp in [s for s in au.walk_stmts(fn.body) if isinstance(s, (ast.For, ast.While))]:
            counters = {}
            if isinstance(lp, ast.For) and isinstance(lp.iter, ast.Call) and isinstance(lp.iter.func, ast.Name):
                if lp.iter.func.id == "enumerate" and isinstance(lp.target, ast.Tuple) and isinstance(lp.target.elts[0], ast.Name):
                    st0 = au.arg_or_kw(lp.iter, 1, "start")
                    counters[lp.target.elts[0].id] = au.const_num(st0) if st0 is not None else 0
                elif lp.iter.func.id == "range" and isinstance(lp.target, ast.Name):
                    counters[lp.target.id] = au.const_num(lp.iter.args[0]) if len(lp.iter.args) >= 2 else 0
            before = {t for s in au.walk_stmts(fn.body) if s.lineno < lp.lineno and isinstance(s, ast.Assign) for t0 in s.targets
                      for t in au.target_names(t0)}
            for iff in [s for s in au.walk_stmts(lp.body) if isinstance(s, ast.If) and s.orelse]:
                # the innermost loop around the `if` is lp
                inner = next((a for a in p.ancestors(iff) if isinstance(a, (ast.For, ast.While))), None)
                if inner is not lp:
                    continue
                for init_arm, grow_arm, positive in ((iff.body, iff.orelse, True), (iff.orelse, iff.body, False)):
                    for s in init_arm:
                        if not (isinstance(s, ast.Assign) and len(s.targets) == 1 and isinstance(s.targets[0], ast.Name)):
                            continue
                        nm = s.targets[0].id
                        if nm in au.names_in(s.value) or nm not in before or not any(_acc_grows(x, nm) for x in grow_arm):
                            continue
                        n += 1
                        test = iff.test if positive else ast.UnaryOp(op=ast.Not(), operand=iff.test)
                        ok = _implies_empty(test, nm, counters) if positive else False
                        ctx.ob(rid, fn, "%s is initialised or appended to" % ("the collected mapping" if rid == "C20.g" else "an accumulator"), ok,
                               "inside the loop `%s = %s` replaces what has been collected so far whenever `%s` holds, and that condition "
                               "does not imply that nothing has been collected yet: the contributions of earlier iterations are lost "
                               "(their variables keep costs and bounds but lose their mapping rows / restrictions)" % (
                                   nm, au.short(s.value, 40), au.short(iff.test, 80)), node=iff,
                               ok_detail="re-initialised only while empty (%s)" % au.short(iff.test, 60))
    # ---------------------------------------------------------------- C01.i accumulate after an unconditional reset
    n_i = 0
    for fn in sorted(p.all_functions(), key=lambda f: f.qualname):
        if fn.parent is not None or fn.module.name != "io":
            continue
        for lp in [s for s in au.walk_stmts(fn.body) if isinstance(s, ast.For)]:
            for st in lp.body:
                if not (isinstance(st, ast.AugAssign) and isinstance(st.op, ast.Add) and isinstance(st.target, ast.Subscript)):
                    continue
                t = st.target
                # frame.loc[row, COL] += v   /   frame[COL] += v
                frame, col = None, None
                if isinstance(t.value, ast.Attribute) and t.value.attr == "loc" and isinstance(t.slice, ast.Tuple) and len(t.slice.elts) == 2:
                    frame, col = t.value.value, t.slice.elts[1]
                elif isinstance(t.value, ast.Name):
                    frame, col = t.value, t.slice
                if frame is None or not isinstance(col, ast.Name):
                    continue
                # the block that contains the accumulating loop
                par = p.parent(lp)
                blk = next((b for b in (getattr(par, "body", None), getattr(par, "orelse", None)) if b and any(x is lp for x in b)), None)
                if blk is None:
                    continue
                n_i += 1
                before = blk[:[i for i, x in enumerate(blk) if x is lp][0]]
                resets = [x for x in before if isinstance(x, ast.Assign) and any(isinstance(tt, ast.Subscript) and au.U(tt.value) == au.U(frame)
                                                                                 and au.U(tt.slice) == col.id for tt in x.targets)]
                guarded = [x for x in before if isinstance(x, ast.If) and any(
                    isinstance(y, ast.Assign) and any(isinstance(tt, ast.Subscript) and au.U(tt.value) == au.U(frame) and au.U(tt.slice) == col.id for tt in y.targets)
                    for y in au.walk_stmts(x.body + x.orelse))]
                # the column name must not be re-bound between the reset and the loop
                ok = bool(resets) and not any(isinstance(x, ast.Assign) and any(isinstance(tt, ast.Name) and tt.id == col.id for tt in x.targets)
                                              for x in before[[i for i, y in enumerate(before) if y is resets[-1]][0]:])
                ctx.ob("C01.j", fn, "%s[%s] accumulated over mapping rows" % (au.U(frame), col.id), ok,
                       "the column is accumulated with += over the selected mapping rows but %s: when a pass selects rows that an earlier "
                       "pass already added (an asset that lists the same node in two slots - storage [power, power], a plant with own "
                       "consumption) they are added a second time and the reported dispatch at the node no longer nets to zero" % (
                           "is reset only under a condition (`%s`)" % au.short(guarded[0].test, 50) if guarded else "is not reset right before the loop"),
                       node=(guarded[0] if guarded else st), ok_detail="reset by `%s`" % (au.short(resets[-1], 40) if resets else ""))
    ctx.require(n_i >= 2, "fewer than 2 accumulated report columns found in io", rules=['C01.j'])

    # ---------------------------------------------------------------- C01.m label-based += with an array of labels
    for fn in sorted(p.all_functions(), key=lambda f: f.qualname):
        if fn.parent is not None or fn.module.name != "io":
            continue
        for st in au.walk_stmts(fn.body):
            if not (isinstance(st, ast.AugAssign) and isinstance(st.op, (ast.Add, ast.Sub)) and isinstance(st.target, ast.Subscript)
                    and isinstance(st.target.value, ast.Attribute) and st.target.value.attr == "loc"):
                continue
            lab = st.target.slice.elts[0] if isinstance(st.target.slice, ast.Tuple) and st.target.slice.elts else st.target.slice
            arrayish = any(isinstance(x, ast.Attribute) and x.attr in ("values", "index") for x in au.walk_local(lab)) or \
                any(isinstance(x, ast.Call) and au.method_name(x) in ("astype", "to_numpy", "tolist", "unique", "array", "asarray") for x in au.walk_local(lab)) or \
                any(isinstance(a, ast.For) and isinstance(a.iter, ast.Call) and au.method_name(a.iter) == "groupby"
                    and isinstance(a.target, ast.Tuple) and len(a.target.elts) == 2 and isinstance(a.target.elts[1], ast.Name)
                    and a.target.elts[1].id in au.names_in(lab) for a in p.ancestors(st))   # a column of the group frame: one label per row of the group
            ctx.ob("C01.m", fn, au.short(st, 80), not arrayish,
                   "the labels on the left are an array (%s): pandas evaluates `frame.loc[labels, col] += v` as a read, an addition and a label-based "
                   "write, so two rows with the same label (two variables of one asset at the same node and step - power and heat of a CHP at its "
                   "fuel node) do not add up, the last one wins, and the reported dispatch at that node no longer nets to zero" % au.short(lab, 50),
                   node=st)

    # ---------------------------------------------------------------- C04.h combined result of the split optimisation
    so = p.fn_opt("SplitOptimProblem.optimize")
    if so is None:
        ctx.ob("C04.h", "SplitOptimProblem", "combined result", None, "SplitOptimProblem.optimize not found")
    else:
        ev = {"value": [], "x": []}
        for st in au.walk_stmts(so.body):
            t = au.stmt_targets(st)[0] if isinstance(st, (ast.Assign, ast.AugAssign)) and au.stmt_targets(st) else None
            if isinstance(t, ast.Attribute) and t.attr in ev and any(isinstance(a, ast.For) for a in p.ancestors(st)):
                grows = isinstance(st, ast.AugAssign) or au.U(t) in au.U(st.value)
                if grows:
                    ev[t.attr].append((_context(p, st, so), st))
        if not ev["value"] or not ev["x"]:
            ctx.ob("C04.h", so, "value and x of the combined result", None, "accumulation of .value / .x over the intervals not recognised")
        else:
            cv, cx = sorted(c for c, _ in ev["value"]), sorted(c for c, _ in ev["x"])
            fmt = lambda evs: [" and ".join(("%s" if arm else "not (%s)") % t0 for t0, arm in e) or "always" for e in evs]
            ctx.ob("C04.h", so, "value and x of the combined result grow together", cv == cx,
                   "the solution vector is extended under %s but the value under %s: for an interval that fails the extra condition (a MIP "
                   "interval returns no duals) the solution is appended while its value is not added - the reported value (0 for an all-MIP "
                   "split) no longer equals the sum of the cash-flow table, which is computed from x" % (fmt(cx), fmt(cv)), node=ev["value"][0][1])

    # ---------------------------------------------------------------- C14.l key-by-key merge of interval dictionaries
    if so is not None:
        n_l = 0
        for lp in [s0 for s0 in au.walk_stmts(so.body) if isinstance(s0, ast.For) and isinstance(s0.target, ast.Name)]:
            src = lp.iter
            if isinstance(src, ast.Call) and au.method_name(src) in ("keys", "items") and isinstance(src.func, ast.Attribute):
                src = src.func.value
            if not isinstance(src, (ast.Attribute, ast.Name, ast.Subscript)) or isinstance(lp.iter, ast.Call) and au.method_name(lp.iter) in ("range", "enumerate", "zip"):
                continue
            k = lp.target.id
            for st in au.walk_stmts(lp.body):
                for x in au.walk_own(st):
                    if not (isinstance(x, ast.Subscript) and isinstance(x.ctx, ast.Load) and isinstance(x.slice, ast.Name) and x.slice.id == k):
                        continue
                    if au.U(x.value) == au.U(src):
                        continue
                    n_l += 1
                    guarded, child = False, x
                    for a0 in p.ancestors(x):
                        if isinstance(a0, ast.If):
                            arm = "body" if any(child is b0 for b0 in a0.body) else ("orelse" if any(child is b0 for b0 in a0.orelse) else "test")
                            for c in au.walk_local(a0.test):
                                if isinstance(c, ast.Compare) and len(c.ops) == 1 and isinstance(c.left, ast.Name) and c.left.id == k \
                                        and au.U(c.comparators[0]) == au.U(x.value):
                                    if (isinstance(c.ops[0], ast.In) and arm == "body") or (isinstance(c.ops[0], ast.NotIn) and arm == "orelse"):
                                        guarded = True
                        if a0 is lp:
                            break
                        child = a0
                    ctx.ob("C14.l", so, "%s inside `for %s in %s`" % (au.short(x, 40), k, au.short(lp.iter, 30)), guarded,
                           "%s is read for every key of %s without a test that it has that key: an interval with a kind of restriction that the "
                           "intervals before did not have (a storage that starts in the second half of the horizon brings the first 'U' rows) "
                           "stops the split optimisation with a KeyError" % (au.short(x.value, 30), au.short(src, 30)), node=x)
        if n_l == 0:
            ctx.ob("C14.l", so, "merge of interval dictionaries", None, "no dictionary of the combined result is read with the keys of an interval's dictionary")

    # ---------------------------------------------------------------- C05.n node selectors of the per-storage report
    io_fn = p.fn_opt("io.extract_output")
    if io_fn is not None:
        n_n = 0
        for iff in [s0 for s0 in au.walk_stmts(io_fn.body) if isinstance(s0, ast.If) and any(
                isinstance(c, ast.Call) and isinstance(c.func, ast.Name) and c.func.id == "isinstance" and len(c.args) == 2 and au.U(c.args[1]) == "Storage"
                for c in au.walk_local(s0.test))]:
            for st in au.walk_stmts(iff.body):
                for x in au.walk_own(st):
                    node_col = lambda e: isinstance(e, ast.Subscript) and au.const_str(e.slice) == "node"
                    if isinstance(x, ast.Compare) and len(x.ops) == 1 and isinstance(x.ops[0], ast.Eq) and (node_col(x.left) or node_col(x.comparators[0])):
                        n_n += 1
                        other = x.comparators[0] if node_col(x.left) else x.left
                        ctx.ob("C05.n", io_fn, au.short(x, 70), False,
                               "the rows for the storage's own report series are selected with node == %s, one node slot: a storage with separate "
                               "charge and discharge nodes has its discharge rows at the other node, so the reported discharge is identically 0 "
                               "and the reported level is not explained by the reported charge / discharge" % au.short(other, 30), node=x)
                    if isinstance(x, ast.Call) and au.method_name(x) == "isin" and isinstance(x.func, ast.Attribute) and node_col(x.func.value):
                        n_n += 1
                        ok = bool(x.args) and ("node_names" in au.U(x.args[0]) or "nodes" in au.U(x.args[0]))
                        ctx.ob("C05.n", io_fn, au.short(x, 70), ok, "the node selector does not name the storage's nodes: %s" % au.short(x, 60), node=x)
        if n_n == 0:
            ctx.ob("C05.n", io_fn, "node selector of the storage report", None, "no selector on the node column found in the storage-specific block")

    # anchor: the order book collects its rows in a loop; if it never re-initialises the collection there is nothing to judge
    ob = p.fn_opt("OrderBook.setup_optim_problem")
    ctx.require(ob is not None, "OrderBook.setup_optim_problem vanished", rules=['C20.g'])
    if not any(o.rule == "C20.g" for o in ctx.obs):
        roles = local_roles(ob)
        grows = [s for lp in au.walk_stmts(ob.body) if isinstance(lp, (ast.For, ast.While)) for s in au.walk_stmts(lp.body)
                 if isinstance(s, (ast.Assign, ast.AugAssign, ast.Expr)) and any(_acc_grows(s, nm) for nm, r in roles.items() if r == "mapping")]
        ctx.ob("C20.g", ob, "the collected mapping is only ever appended to", True if grows else None,
               "the loop collecting the mapping rows of the orders was not recognised", node=(grows[0] if grows else ob.node),
               ok_detail="no re-initialisation inside the loop")
    return n


@analysis("lockstep", ["C07.c", "C07.d", "C20.g", "C07.r", "C01.j", "C05.n", "C04.h", "C01.m", "C14.l"])
def run(ctx):
    p = ctx.p
    n_var = n_row = 0
    for fn in sorted(p.all_functions(), key=lambda f: f.qualname):
        if fn.parent is not None:
            continue
        roles = local_roles(fn)
        events = {}
        sites = {}
        # construction phase: up to the last plain (non-growth) definition of a carrier of the group the carriers are being
        # *defined* (b = hstack((b, b_min)); A = vstack((A, A)); cType = 'U'*n + 'L'*n), not grown
        built = {}
        for st in au.walk_stmts(fn.body):
            if isinstance(st, ast.Assign) and len(st.targets) == 1 and _growth(st, roles) is None:
                r0 = role(st.targets[0], roles)
                if r0 in VAR + ROW and not isinstance(st.targets[0], ast.Subscript):
                    owner0 = au.base_name(st.targets[0]) if isinstance(st.targets[0], ast.Attribute) else ""
                    grp = VAR if r0 in VAR else ROW
                    built[(owner0, grp)] = max(built.get((owner0, grp), 0), st.lineno)
        for st in au.walk_stmts(fn.body):
            g = _growth(st, roles)
            if g is None:
                continue
            owner_ = au.base_name(au.stmt_targets(st)[0]) if isinstance(au.stmt_targets(st)[0], ast.Attribute) else ""
            if st.lineno < built.get((owner_, VAR if g[0] in VAR else ROW), 0) and not _context(p, st, fn):
                continue
            c = _context(p, st, fn)
            if _costs_only_true(c):
                continue
            # the object that grows (op.c vs other.c are different problems)
            owner = au.base_name(au.stmt_targets(st)[0]) if isinstance(au.stmt_targets(st)[0], ast.Attribute) else ""
            events.setdefault((owner, g[0]), []).append(c)
            sites.setdefault((owner, g[0]), []).append(st)
        for group, rid in ((VAR, "C07.c"), (ROW, "C07.d")):
            owners = {o for (o, r) in events if r in group}
            for o in sorted(owners):
                present = [r for r in group if (o, r) in events]
                if len(present) < 2:
                    continue
                merged = {r: _merge(events[(o, r)]) for r in present}
                ref = merged[present[0]]
                ok = all(merged[r] == ref for r in present)
                if rid == "C07.c":
                    n_var += 1
                else:
                    n_row += 1
                detail = ""
                if not ok:
                    def fmt(evs):
                        return [" and ".join(("%s" if arm else "not (%s)") % t for t, arm in e) or "always" for e in evs]
                    detail = "; ".join("%s grows under %s" % (r, fmt(merged[r])) for r in present) + \
                        ": on the option combination where the conditions differ the carriers have different lengths (the mapping / " \
                        "the solver then pair entries of one with variables / rows of the other)"
                first = sites[(o, present[0])][0]
                ctx.ob(rid, fn, "%s%s grow together" % ((o + ": ") if o else "", ", ".join(present)), ok, detail, node=first,
                       ok_detail="%d growth event(s) each" % len(ref))
    _accumulators(ctx)
    ctx.require(n_var >= 4, "fewer than 4 functions grow at least two of c / l / u", rules=['C07.c'])
    ctx.require(n_row >= 6, "fewer than 6 functions grow at least two of A / b / cType", rules=['C07.d'])
