"""E4 - lockstep (pairing) rules, syntactic guard-context form (C07.c, C07.d).

Carriers that must grow together:
  VAR-lockstep   c, l, u   (one entry per variable)
  ROW-lockstep   rows of A, b, letters of cType   (one entry per row)

Every growth event `x = hstack((x, new))` / `x += new` of a carrier is recorded with its *guard context*: the list of
enclosing `if` tests with the arm taken.  Two events in the two arms of one `if` (equal context otherwise) count as one
event at the parent context.  Within one function the multisets of guard contexts of the carriers of a group must be equal:
a carrier that grows under a wider or narrower condition than its partners has a different length on some option
combination - exactly the combinations the tests do not sample.  Growth that happens only where costs_only is true is
ignored (the cost-only path needs c alone).  Carriers are recognised by role (carriers.py), never by local name.
"""
from __future__ import annotations
import ast
from .. import astutil as au
from ..carriers import local_roles, role
from ..tables import rule
from . import analysis

rule("C07.c", "VAR-lockstep: within a function c, l and u grow under the same guard contexts (one entry per variable on every option "
              "combination)", floor=5)
rule("C07.d", "ROW-lockstep: within a function the rows of A, b and the letters of cType grow under the same guard contexts", floor=8,
     props=["C07", "C03"])

VAR = ("c", "l", "u")
ROW = ("A", "b", "cType")


def _growth(st, roles):
    """(role, appended expr list) if st grows a carrier from itself, else None."""
    if isinstance(st, ast.AugAssign) and isinstance(st.op, ast.Add):
        r = role(st.target, roles)
        if r in VAR + ROW:
            return r, [st.value]
        return None
    if not (isinstance(st, ast.Assign) and len(st.targets) == 1):
        return None
    t = st.targets[0]
    r = role(t, roles)
    if r not in VAR + ROW:
        return None
    v = st.value
    if isinstance(v, ast.Call) and au.method_name(v) in ("hstack", "vstack", "concatenate", "append") and v.args:
        a0 = v.args[0]
        parts = list(a0.elts) if isinstance(a0, (ast.Tuple, ast.List)) else list(v.args[:2])
        if len(parts) >= 2 and au.U(parts[0]) == au.U(t):
            if r == "A" and au.method_name(v) == "hstack":
                return None          # new columns, not new rows
            return r, parts[1:]
    if isinstance(v, ast.BinOp) and isinstance(v.op, ast.Add) and au.U(v.left) == au.U(t):
        return r, [v.right]
    return None


def _context(p, st, fn):
    ctx_ = []
    child = st
    for anc in p.ancestors(st):
        if anc is fn.node:
            break
        if isinstance(anc, ast.If):
            in_body = any(child is x for x in anc.body)
            ctx_.append((au.U(anc.test), in_body))
        child = anc
    return tuple(reversed(ctx_))


def _merge(events):
    """Events in both arms of one `if` (equal context otherwise) become one event at the parent context."""
    ev = list(events)
    changed = True
    while changed:
        changed = False
        for i, a in enumerate(ev):
            if not a:
                continue
            for j, b in enumerate(ev):
                if j <= i or not b or len(a) != len(b):
                    continue
                if a[:-1] == b[:-1] and a[-1][0] == b[-1][0] and a[-1][1] != b[-1][1]:
                    ev = [x for k, x in enumerate(ev) if k not in (i, j)] + [a[:-1]]
                    changed = True
                    break
            if changed:
                break
    return sorted(ev)


def _costs_only_true(c):
    for test, arm in c:
        t = test.replace(" ", "")
        if (t == "costs_only" and arm) or (t in ("notcosts_only",) and not arm):
            return True
    return False


@analysis("lockstep", ["C07.c", "C07.d"])
def run(ctx):
    p = ctx.p
    n_var = n_row = 0
    for fn in sorted(p.all_functions(), key=lambda f: f.qualname):
        if fn.parent is not None:
            continue
        roles = local_roles(fn)
        events = {}
        sites = {}
        # construction phase: up to the last plain (non-growth) definition of a carrier of the group the carriers are being
        # *defined* (b = hstack((b, b_min)); A = vstack((A, A)); cType = 'U'*n + 'L'*n), not grown
        built = {}
        for st in au.walk_stmts(fn.body):
            if isinstance(st, ast.Assign) and len(st.targets) == 1 and _growth(st, roles) is None:
                r0 = role(st.targets[0], roles)
                if r0 in VAR + ROW and not isinstance(st.targets[0], ast.Subscript):
                    owner0 = au.base_name(st.targets[0]) if isinstance(st.targets[0], ast.Attribute) else ""
                    grp = VAR if r0 in VAR else ROW
                    built[(owner0, grp)] = max(built.get((owner0, grp), 0), st.lineno)
        for st in au.walk_stmts(fn.body):
            g = _growth(st, roles)
            if g is None:
                continue
            owner_ = au.base_name(au.stmt_targets(st)[0]) if isinstance(au.stmt_targets(st)[0], ast.Attribute) else ""
            if st.lineno < built.get((owner_, VAR if g[0] in VAR else ROW), 0) and not _context(p, st, fn):
                continue
            c = _context(p, st, fn)
            if _costs_only_true(c):
                continue
            # the object that grows (op.c vs other.c are different problems)
            owner = au.base_name(au.stmt_targets(st)[0]) if isinstance(au.stmt_targets(st)[0], ast.Attribute) else ""
            events.setdefault((owner, g[0]), []).append(c)
            sites.setdefault((owner, g[0]), []).append(st)
        for group, rid in ((VAR, "C07.c"), (ROW, "C07.d")):
            owners = {o for (o, r) in events if r in group}
            for o in sorted(owners):
                present = [r for r in group if (o, r) in events]
                if len(present) < 2:
                    continue
                merged = {r: _merge(events[(o, r)]) for r in present}
                ref = merged[present[0]]
                ok = all(merged[r] == ref for r in present)
                if rid == "C07.c":
                    n_var += 1
                else:
                    n_row += 1
                detail = ""
                if not ok:
                    def fmt(evs):
                        return [" and ".join(("%s" if arm else "not (%s)") % t for t, arm in e) or "always" for e in evs]
                    detail = "; ".join("%s grows under %s" % (r, fmt(merged[r])) for r in present) + \
                        ": on the option combination where the conditions differ the carriers have different lengths (the mapping / " \
                        "the solver then pair entries of one with variables / rows of the other)"
                first = sites[(o, present[0])][0]
                ctx.ob(rid, fn, "%s%s grow together" % ((o + ": ") if o else "", ", ".join(present)), ok, detail, node=first,
                       ok_detail="%d growth event(s) each" % len(ref))
    ctx.require(n_var >= 4, "fewer than 4 functions grow at least two of c / l / u")
    ctx.require(n_row >= 6, "fewer than 6 functions grow at least two of A / b / cType")
