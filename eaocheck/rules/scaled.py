"""Scaled asset (C16.a, C16.b, C16.g).

C16.a  lockstep: the scale variable adds one column to A, one entry to l / u / c and one mapping row; each block of scaling
       rows adds nD rows to A, nD zeros to b and nD letters
C16.b  scale homogeneity: self.norm_scale only ever divides; the scale column carries the negated right-hand sides /
       bounds of the base problem
C16.g  scaling rows live in the variable space: an identity block sp.eye(k) over a *subset* of the variables may be stacked
       under a matrix over all variables only if the subset is provably all variables
"""
from __future__ import annotations
import ast
from .. import astutil as au
from ..tables import rule
from . import analysis

rule("C16.a", "ScaledAsset: one new column / bound / cost / mapping row for the scale variable; scaling row blocks, zeros and "
              "letters have one width", floor=4)
rule("C16.b", "ScaledAsset: norm_scale only divides; the scale column is the negated base right-hand side / bound", floor=4)
rule("C16.c", "ScaledAsset: the scale column of a block of bound rows is the base asset's bound as it was before the bounds were "
              "rescaled in place (the retained copy), and the upper / lower rows take the upper / lower bound", floor=2)
rule("C16.g", "an identity block over a subset of the variables is not stacked under a matrix over all variables", floor=1)


rule("C16.m", "a wrapper that extends the variable names of what it wraps treats them as text only after converting them: set-ups write "
              "numbers into the 'var_name' column too (the orders of an order book are numbered)", floor=1)


rule("C16.n", "ScaledAsset: the rows that couple the dispatch to the scale variable (x <= u s/S, x >= l s/S) are appended for every "
              "parameter set - not only under a condition on the asset's own parameters (the variable bounds are clipped at zero and "
              "cannot stand in for them when the base band does not contain zero)", floor=2)


@analysis("scaled", ["C16.a", "C16.b", "C16.c", "C16.g", "C16.m", "C16.n"])
def run(ctx):
    p = ctx.p
    fn = p.cls("ScaledAsset").methods.get("setup_optim_problem")
    ctx.require(fn is not None, "ScaledAsset.setup_optim_problem vanished")
    body = list(au.walk_stmts(fn.body))
    # ---------------------------------------------------------------- C16.a
    grow = {"l": [], "u": [], "c": []}
    for st in body:
        if isinstance(st, ast.Assign) and isinstance(st.value, ast.Call) and au.method_name(st.value) == "hstack":
            k = au.terminal(st.targets[0])
            a0 = st.value.args[0] if st.value.args else None
            if k in grow and isinstance(a0, (ast.Tuple, ast.List)) and len(a0.elts) == 2 and au.terminal(a0.elts[0]) == k:
                grow[k].append((st, a0.elts[1]))
    counts = {k: len(v) for k, v in grow.items()}
    ctx.ob("C16.a", fn, "scale variable: l, u and c grow once each", counts == {"l": 1, "u": 1, "c": 1},
           "the scale variable must add exactly one entry to l, u and c (found %s)" % counts, node=fn.node)
    if grow["l"] and grow["u"]:
        ok = au.path(grow["l"][0][1]) == "self.min_scale" and au.path(grow["u"][0][1]) == "self.max_scale"
        ctx.ob("C16.a", fn, "bounds of the scale variable", ok,
               "the scale variable is bounded by [min_scale, max_scale]; found [%s, %s]" % (au.U(grow["l"][0][1]), au.U(grow["u"][0][1])), node=grow["l"][0][0])
    maprow = [st for st in body if isinstance(st, ast.Assign) and isinstance(st.targets[0], ast.Subscript) and "mapping.loc" in au.U(st.targets[0])]
    ctx.ob("C16.a", fn, "one mapping row for the scale variable", len(maprow) == 1, "found %d row insertions" % len(maprow), node=(maprow[0] if maprow else fn.node))
    # row blocks
    blocks = []
    block_guards = {}
    for lst, guards in au.stmt_lists(fn.body):
        for i, st in enumerate(lst):
            if isinstance(st, ast.Assign) and au.terminal(st.targets[0]) == "A" and isinstance(st.value, ast.Call) and au.method_name(st.value) == "vstack":
                eyes = [x for x in au.walk_local(st.value) if isinstance(x, ast.Call) and au.method_name(x) in ("eye", "identity")]
                if eyes:
                    nxt = lst[i + 1: i + 3]
                    bz = [s for s in nxt if isinstance(s, ast.Assign) and au.terminal(s.targets[0]) == "b"]
                    ct = [s for s in nxt if isinstance(s, (ast.AugAssign, ast.Assign)) and au.terminal(au.stmt_targets(s)[0]) == "cType"]
                    blocks.append((st, eyes[0], bz, ct))
                    block_guards[id(st)] = guards
    # ---------------------------------------------------------------- C16.n the coupling rows are there for every parameter set
    for st, eye, bz, ct in blocks:
        gs = [g for g in block_guards[id(st)] if g[0] == "if"]
        par = [g for g in gs if any(isinstance(x, ast.Attribute) and au.base_name(x) == "self" for x in au.walk_local(g[1]))]
        other = [g for g in gs if g not in par]
        ok = False if par else (None if other else True)
        ctx.ob("C16.n", fn, "coupling rows %s" % au.short(st, 50), ok,
               ("the rows that tie the dispatch to the scale (x <= u s/S, x >= l s/S) are only added under `%s`: the bounds of the dispatch "
                "variables are min(0, l) and max(0, u) times max_scale / norm_scale - they contain zero, so without the rows a base asset whose "
                "band does not contain zero (must-take, must-deliver) loses its obligation, whatever the scale parameters are"
                % au.short(par[0][1], 60)) if par else
               ("added under `%s`, which this rule does not interpret" % au.short(other[0][1], 60) if other else ""),
               node=st, ok_detail="appended on every path", key="coupling rows of the %s block are unconditional" % (
                   {"U": "upper", "L": "lower"}.get(next(iter({x.value for c0 in ct for x in au.walk_local(c0.value)
                                                          if isinstance(x, ast.Constant) and x.value in ("U", "L")}), "?"), "?")))
    for st, eye, bz, ct in blocks:
        w = au.U(eye.args[0])
        wb = None
        if bz:
            z = [x for x in au.walk_local(bz[0].value) if isinstance(x, ast.Call) and au.method_name(x) == "zeros"]
            wb = au.U(z[0].args[0]) if z else None
        wc = None
        if ct:
            m = [x for x in au.walk_local(ct[0].value) if isinstance(x, ast.BinOp) and isinstance(x.op, ast.Mult)]
            if m:
                wc = au.U(m[0].left if au.const_str(m[0].right) else m[0].right)
        ctx.ob("C16.a", fn, "row block %s" % au.short(st, 50), w == wb == wc,
               "a block of scaling rows adds %s rows to A, %s zeros to b and %s letters: the three must agree" % (w, wb, wc), node=st)
    # ---------------------------------------------------------------- C16.b
    uses = [n for st in body for n in au.walk_own(st) if isinstance(n, ast.Attribute) and au.path(n) == "self.norm_scale"]
    for n in uses:
        par = p.parent(n)
        ok = isinstance(par, ast.BinOp) and isinstance(par.op, ast.Div) and par.right is n
        ctx.ob("C16.b", fn, au.short(par, 80), ok,
               "norm_scale is the size the base asset is quoted for: a scale s stands for s / norm_scale base assets, so norm_scale "
               "must divide (here it %s)" % ("multiplies" if isinstance(par, ast.BinOp) and isinstance(par.op, ast.Mult) else "does not divide"), node=n)
    # scale column entries are negated
    cols = []
    for st in body:
        for n in au.walk_own(st):
            if isinstance(n, ast.Call) and au.method_name(n) == "reshape" and n.args:
                cols.append((st, n))
    for st, n in cols:
        neg = au.sign_of(n.args[0]) < 0
        ctx.ob("C16.b", fn, "scale column %s" % au.short(n, 50), neg,
               "rows A x <= b become A x - b s/S <= 0: the scale column carries the *negated* right-hand side / bound", node=n)
    # ---------------------------------------------------------------- C16.c
    ff = ctx.flow(fn)

    def overwritten(attr_node, at):
        """in-place stores `<obj>.<attr>[..] = ..` that reach `at`."""
        base = au.base_name(attr_node)
        pth = au.path(attr_node)
        return [d for d in ff.defs(base, at) if d.kind == "store" and isinstance(d.index, str) and d.index.startswith(pth + "[")]

    for st, eye, bz, ct in blocks:
        letter = None
        if ct:
            ls = {x.value for x in au.walk_local(ct[0].value)
                  if isinstance(x, ast.Constant) and isinstance(x.value, str) and x.value in ("U", "L")}
            letter = next(iter(ls)) if len(ls) == 1 else None
        col = [x for x in au.walk_local(st.value) if isinstance(x, ast.Call) and au.method_name(x) == "reshape" and x.args]
        if not col or letter is None:
            ctx.ob("C16.c", fn, "scale column of %s" % au.short(st, 50), None, "scale column / row type of the block not recognised", node=st)
            continue
        srcs = []       # (bound attr, stale stores, node)
        for x in au.walk_local(col[0].args[0]):
            if isinstance(x, ast.Attribute) and x.attr in ("l", "u") and au.base_name(x) not in (None, "self", "np"):
                srcs.append((x.attr, overwritten(x, st), x))
            elif isinstance(x, ast.Name) and isinstance(x.ctx, ast.Load):
                for d in ff.defs(x.id, st):
                    v = d.value
                    if d.kind != "assign" or v is None:
                        continue
                    if isinstance(v, ast.Call) and au.method_name(v) in ("copy", "deepcopy", "array"):
                        v = v.func.value if (isinstance(v.func, ast.Attribute) and au.method_name(v) == "copy") else (v.args[0] if v.args else v)
                    if isinstance(v, ast.Attribute) and v.attr in ("l", "u") and au.base_name(v) not in (None, "self", "np"):
                        srcs.append((v.attr, overwritten(v, d.node), x))
        if not srcs:
            ctx.ob("C16.c", fn, "scale column of the '%s' rows" % letter, None, "the bound the scale column is built from was not recognised: %s"
                   % au.short(col[0].args[0], 60), node=col[0])
            continue
        stale = [(a, sd, x) for a, sd, x in srcs if sd]
        wrong = [(a, sd, x) for a, sd, x in srcs if a != letter.lower()]
        detail = ""
        if stale:
            detail = "%s is read after it was overwritten in place (line %s: the bound times max_scale / norm_scale, clipped at 0): the row " \
                     "x >= / <= bound * s / norm_scale then uses the rescaled bound instead of the base asset's bound, so a fixed scale no " \
                     "longer reproduces the base asset with capacities times s / norm_scale" % (
                         au.short(stale[0][2], 30), ", ".join(str(d.node.lineno) for d in stale[0][1]))
        elif wrong:
            detail = "the '%s' rows couple the dispatch to the scale through the base asset's *%s* bound" % (letter, "upper" if wrong[0][0] == "u" else "lower")
        ctx.ob("C16.c", fn, "scale column of the '%s' rows" % letter, not stale and not wrong, detail, node=col[0],
               ok_detail="base bound .%s as retained before the in-place rescaling" % letter.lower())
    # ---------------------------------------------------------------- C16.g
    org = ctx.origins(fn, values_only=False)
    for st, eye, bz, ct in blocks:
        nodes = org.nodes(eye.args[0], st)
        subset = any(isinstance(x, ast.Compare) and any(isinstance(y, ast.Subscript) and au.const_str(y.slice) == "type" for y in au.walk_local(x)) for x in nodes)
        ctx.ob("C16.g", fn, "identity block %s" % au.short(eye, 40), not subset,
               "sp.eye(%s) has one column per *dispatch* variable (a subset selected by type == 'd') but is stacked under op.A, whose "
               "columns are all variables of the base asset: for a base asset with internal variables (MIP storage, plant with minimum "
               "load) the widths differ (ValueError: incompatible column dimensions) - and capacities multiplying binaries are not scaled "
               "at all" % au.U(eye.args[0]), node=eye, key="identity block over the dispatch variables stacked under op.A")

    # ================================================================= C16.m variable names are not always text
    def is_varname_col(e):
        return isinstance(e, ast.Subscript) and au.const_str(e.slice) == "var_name"
    numeric_writers = []
    for fn in p.all_functions():
        if fn.cls is None or not p.is_subclass(fn.cls, "Asset"):
            continue
        loopvars = set()
        for lp in au.walk_stmts(fn.body):
            if isinstance(lp, ast.For) and isinstance(lp.iter, ast.Call) and au.method_name(lp.iter) in ("range", "enumerate"):
                t = lp.target
                if isinstance(t, ast.Name):
                    loopvars.add(t.id)
                elif isinstance(t, ast.Tuple) and t.elts and isinstance(t.elts[0], ast.Name) and au.method_name(lp.iter) == "enumerate":
                    loopvars.add(t.elts[0].id)
        for st in au.walk_stmts(fn.body):
            if isinstance(st, ast.Assign) and len(st.targets) == 1 and is_varname_col(st.targets[0]):
                v = st.value
                if (isinstance(v, ast.Name) and v.id in loopvars) or (isinstance(v, ast.Constant) and isinstance(v.value, (int, float)) and not isinstance(v.value, bool)):
                    numeric_writers.append((fn, st))
    n_m = 0
    for fn in p.all_functions():
        if fn.cls is None or not p.is_subclass(fn.cls, "Asset"):
            continue
        for st in au.walk_stmts(fn.body):
            for x in au.walk_own(st):
                if not (isinstance(x, ast.BinOp) and isinstance(x.op, ast.Add)):
                    continue
                if isinstance(p.parent(x), ast.BinOp) and isinstance(p.parent(x).op, ast.Add) and p.parent(x).left is x:
                    continue    # judge the whole chain once, at its top
                leaves, stack = [], [x]
                while stack:
                    y = stack.pop()
                    if isinstance(y, ast.BinOp) and isinstance(y.op, ast.Add):
                        stack += [y.right, y.left]
                    else:
                        leaves.append(y)
                if not any(au.const_str(l0) is not None for l0 in leaves):
                    continue    # not a text concatenation
                for l0 in leaves:
                    r = ctx.resolve(fn, l0, st)
                    conv = False
                    while isinstance(r, ast.Call) and isinstance(r.func, ast.Attribute) and au.method_name(r) in ("astype", "map", "apply", "fillna", "where"):
                        conv = conv or (au.method_name(r) in ("astype", "map", "apply") and r.args and au.U(r.args[0]) in ("str", "'str'", "object") and au.U(r.args[0]) != "object")
                        r = ctx.resolve(fn, r.func.value, st)
                    if is_varname_col(r):
                        n_m += 1
                        ok = conv or not numeric_writers
                        ctx.ob("C16.m", fn, au.short(x, 70), ok,
                               "the 'var_name' column is extended as text (%s), but %s writes numbers into it (%s): number + text raises a TypeError - an "
                               "order book cannot be part of a structured asset, although the flat portfolio with the same assets can be optimised" % (
                                   au.short(x, 50), numeric_writers[0][0].qualname if numeric_writers else "", au.short(numeric_writers[0][1], 40) if numeric_writers else ""),
                               node=x, ok_detail="converted to text first" if conv else "no set-up writes numbers")
    if n_m == 0:
        ctx.ob("C16.m", "package", "text operations on variable names", None, "no wrapper extends the 'var_name' column")
