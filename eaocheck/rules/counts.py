"""Count spaces (C07.q, C17.g): a number of variables and a number of rows are never interchanged.

`n, m = A.shape` gives a ROW count and a VAR count; `len(op.l)` a VAR count; `len(op.b)` a ROW count.  The formulation code
uses such counts in four kinds of places, each of which fixes the space the count has to come from:

  label offset   <mapping>.index = k + ... / <mapping>.index += k        variable labels are offset by VAR counts
  block width    the column number of a matrix stacked *under* A          VAR
  block height   the row number of a matrix stacked *beside* A            ROW
  vector length  np.zeros(k) & co. assigned to / appended to c, l, u      VAR;   to b   ROW

A count of the definite other space is a violation (the two coincide only for square problems - e.g. one restriction per
variable - which is what small test portfolios tend to be).  Counts of time steps, literals and anything the evaluator cannot
type are not judged.  In stoch_lin_prog.py the rule is reported as C17.g: the scenario copies of the variables are numbered
by these offsets, and optimize() reads the boolean flags through that numbering.
"""
from __future__ import annotations
import ast
from .. import astutil as au
from ..carriers import local_roles, role
from ..tables import rule
from . import analysis

rule("C07.q", "a row count is never used where a variable count is needed (offsets of variable labels, widths of restriction "
              "blocks, lengths of c / l / u) nor the other way round (heights of column blocks, length of b)", floor=20)
rule("C17.g", "stochastic / robust extension: the scenario copies of variables, rows and labels are offset and sized by counts of "
              "the right space (variables vs. rows)", floor=2, props=["C17", "C07"])

rule("C07.x", "a running offset of the variable numbering advances by the number of variables of *every* object the loop visits: no "
              "`continue` skips the update for an object whose variables exist (an asset without mapping rows - an order book with all "
              "orders outside the grid - still has its variables in c, l, u)", floor=1, props=["C07", "C09"])

rule("C07.aa", "a wrapper that adds a variable to the problem of what it wraps labels the new mapping row with the variable's position in "
               "c (a count of variables), never with 'largest label + 1': the wrapped problem may end with variables that have no mapping "
               "row (orders outside the horizon)", floor=1, props=["C07", "C04", "C16"])
rule("C07.ab", "c, l and u of a set-up keep one entry per variable label the mapping was built for: once mapping rows carry labels, the "
               "vectors are not thinned out with a mask / selection (the labels would point past the end or at other variables)", floor=1)

VAR, ROW = "VAR", "ROW"
VARC = ("c", "l", "u", "x")
ROWC = ("b", "cType")
STACK_V = ("vstack",)
STACK_H = ("hstack",)
MATRIX = ("lil_matrix", "csr_matrix", "csc_matrix", "coo_matrix", "zeros", "ones", "empty")
VECTOR = ("zeros", "ones", "empty", "full")


class Counter:
    def __init__(self, ctx, fn):
        self.ff = ctx.flow(fn)
        self.roles = local_roles(fn)
        self._busy = set()

    def _carrier_space(self, e, axis=0):
        r = role(e, self.roles)
        if r is None and isinstance(e, ast.Attribute):
            r = e.attr if e.attr in VARC + ROWC + ("A",) else None
        if r in VARC:
            return VAR if axis == 0 else None
        if r in ROWC:
            return ROW if axis == 0 else None
        if r == "A":
            return ROW if axis == 0 else (VAR if axis == 1 else None)
        return None

    def count(self, e, at, depth=0):
        """VAR / ROW / 'neutral' (a literal) / None."""
        if e is None or depth > 10:
            return None
        if isinstance(e, ast.Constant) and isinstance(e.value, (int, float)) and not isinstance(e.value, bool):
            return "neutral"
        if isinstance(e, ast.Call) and isinstance(e.func, ast.Name) and e.func.id in ("len", "int") and len(e.args) == 1:
            if e.func.id == "int":
                return self.count(e.args[0], at, depth + 1)
            return self._carrier_space(e.args[0], 0)
        if isinstance(e, ast.Subscript) and isinstance(e.value, ast.Attribute) and e.value.attr == "shape":
            k = au.const_num(e.slice)
            if k in (0, 1):
                return self._carrier_space(e.value.value, int(k))
            return None
        if isinstance(e, ast.BinOp) and isinstance(e.op, (ast.Add, ast.Sub)):
            l, r = self.count(e.left, at, depth + 1), self.count(e.right, at, depth + 1)
            if l == "neutral":
                return r
            if r == "neutral":
                return l
            return l if l == r else None
        if isinstance(e, ast.Name):
            key = (e.id, id(at))
            if key in self._busy:
                return "neutral"          # the accumulator itself inside its own update
            self._busy.add(key)
            try:
                out = "unset"
                todo = list(self.ff.defs(e.id, at))
                seen = set()
                while todo:
                    d = todo.pop()
                    if id(d) in seen:
                        continue
                    seen.add(id(d))
                    t = self._def_count(d, depth)
                    if d.kind == "aug":
                        todo.extend(d.prev)
                    if t == "neutral":
                        continue
                    if out == "unset":
                        out = t
                    elif out != t:
                        return None
                return "neutral" if out == "unset" else out
            finally:
                self._busy.discard(key)
        return None

    def _def_count(self, d, depth):
        v = d.value
        if d.kind == "assign":
            return self.count(v, d.node, depth + 1)
        if d.kind == "aug":
            if isinstance(d.node, ast.AugAssign) and isinstance(d.node.op, (ast.Add, ast.Sub)):
                return self.count(v, d.node, depth + 1)
            return None
        if d.kind == "unpack" and isinstance(d.index, tuple) and len(d.index) == 1:
            if isinstance(v, ast.Attribute) and v.attr == "shape":
                return self._carrier_space(v.value, d.index[0])
            if isinstance(v, (ast.Tuple, ast.List)) and d.index[0] < len(v.elts):
                return self.count(v.elts[d.index[0]], d.node, depth + 1)
        return None


def _terms(e):
    if isinstance(e, ast.BinOp) and isinstance(e.op, (ast.Add, ast.Sub)):
        return _terms(e.left) + _terms(e.right)
    return [e]


def _shape_args(call):
    """(rows expr, cols expr) of sp.lil_matrix((r, c)) / np.zeros((r, c)); (len expr, None) for a vector constructor."""
    if not call.args:
        return None
    a0 = call.args[0]
    if isinstance(a0, ast.Tuple) and len(a0.elts) == 2:
        return a0.elts[0], a0.elts[1]
    return None


@analysis("counts", ["C07.q", "C17.g", "C07.x", "C07.aa", "C07.ab"])
def run(ctx):
    p = ctx.p
    n_q = n_g = 0
    for fn in sorted(p.all_functions(), key=lambda f: f.qualname):
        if fn.parent is not None:
            continue
        rid = "C17.g" if fn.module.name.endswith("stoch_lin_prog") else "C07.q"
        cn = Counter(ctx, fn)
        roles = cn.roles
        ff = cn.ff

        def judge(expr, need, what, st, node):
            nonlocal n_q, n_g
            got = cn.count(expr, st)
            if got not in (VAR, ROW):
                return
            if rid == "C17.g":
                n_g += 1
            else:
                n_q += 1
            names = {VAR: "a number of variables", ROW: "a number of rows"}
            ctx.ob(rid, fn, "%s: %s" % (what, au.short(node, 80)), got == need,
                   "%s is %s but %s has to be %s: the two only coincide when the problem happens to have as many restrictions as "
                   "variables; otherwise %s" % (au.short(expr, 40), names[got], what, names[need],
                                                "the labels point at other (or no) variables" if what.startswith("offset") else
                                                "the block does not line up with the problem it is attached to (or silently pads / "
                                                "truncates it)"), node=node, ok_detail="%s is %s" % (au.short(expr, 40), names[got]))

        def matrix_defs(e, st, depth=0):
            """matrix-constructor calls an operand of a stack can come from (directly or through a local)."""
            if depth > 3:
                return []
            if isinstance(e, ast.Call) and au.method_name(e) in MATRIX and _shape_args(e):
                return [e]
            if isinstance(e, ast.Name):
                out = []
                for d in ff.defs(e.id, st):
                    if d.kind == "assign" and d.value is not None:
                        out.extend(matrix_defs(d.value, d.node, depth + 1))
                return out
            return []

        for st in au.walk_stmts(fn.body):
            # ---------------------------------------------------------------- label offsets
            tgt = val = None
            if isinstance(st, ast.Assign) and len(st.targets) == 1:
                tgt, val = st.targets[0], st.value
            elif isinstance(st, ast.AugAssign) and isinstance(st.op, (ast.Add, ast.Sub)):
                tgt, val = st.target, st.value
            if isinstance(tgt, ast.Attribute) and tgt.attr == "index" and val is not None:
                frame = tgt.value
                is_map = (isinstance(frame, ast.Attribute) and frame.attr == "mapping") or \
                    (isinstance(frame, ast.Name) and _is_mapping_local(ctx, fn, frame, st))
                if is_map:
                    for t in _terms(val):
                        judge(t, VAR, "offset of variable labels", st, st)
            # ---------------------------------------------------------------- blocks stacked to A; vectors appended to carriers
            if isinstance(st, ast.Assign) and len(st.targets) == 1 and isinstance(st.value, ast.Call):
                r = role(st.targets[0], roles)
                m = au.method_name(st.value)
                v = st.value
                if r == "A" and m in STACK_V + STACK_H and v.args:
                    a0 = v.args[0]
                    parts = list(a0.elts) if isinstance(a0, (ast.Tuple, ast.List)) else []
                    if parts and role(parts[0], roles) == "A":
                        for prt in parts[1:]:
                            for mc in matrix_defs(prt, st):
                                rows, cols = _shape_args(mc)
                                if m in STACK_V:
                                    judge(cols, VAR, "width of a block stacked under the restriction matrix", st, mc)
                                else:
                                    judge(rows, ROW, "height of a block of new columns", st, mc)
                if r in VARC + ("b",) and m in ("hstack", "concatenate", "append") and v.args:
                    a0 = v.args[0]
                    parts = list(a0.elts) if isinstance(a0, (ast.Tuple, ast.List)) else list(v.args[:2])
                    for prt in parts[1:] if (parts and role(parts[0], roles) == r) else parts:
                        if isinstance(prt, ast.Call) and au.method_name(prt) in VECTOR and prt.args and not isinstance(prt.args[0], ast.Tuple):
                            judge(prt.args[0], ROW if r == "b" else VAR, "length of a vector appended to %s" % r, st, prt)
                if r in VARC + ("b",) and m in VECTOR and v.args and not isinstance(v.args[0], ast.Tuple):
                    judge(v.args[0], ROW if r == "b" else VAR, "length of %s" % r, st, v)
    # ================================================================= C07.x the offset advances for every object
    n_x = 0
    for fn in sorted(p.all_functions(), key=lambda f: f.qualname):
        if fn.parent is not None:
            continue
        cn = None
        for lp in [s0 for s0 in au.walk_stmts(fn.body) if isinstance(s0, ast.For)]:
            for k, st in enumerate(lp.body):
                if not (isinstance(st, ast.AugAssign) and isinstance(st.op, ast.Add) and isinstance(st.target, ast.Name)):
                    continue
                cn = cn or Counter(ctx, fn)
                if cn.count(st.value, st) != VAR:
                    continue
                n_x += 1
                # names the counted expression needs
                need = {x.id for x in au.walk_local(st.value) if isinstance(x, ast.Name)} - set(au.target_names(lp.target)) - {"len"}
                skips = []
                for prev in lp.body[:k]:
                    if isinstance(prev, ast.If) and any(isinstance(y, (ast.Continue, ast.Break)) for y in au.walk_stmts(prev.body + prev.orelse)):
                        # is the counted object already there when the loop is left early?
                        defined_later = any(isinstance(z, (ast.Assign, ast.AugAssign)) and z.lineno > prev.lineno and z.lineno < st.lineno and
                                            (need & {t for t0 in au.stmt_targets(z) for t in au.target_names(t0)}) for z in au.walk_stmts(lp.body))
                        if not defined_later:
                            skips.append(prev)
                nested = p.parent(st) is not lp
                ctx.ob("C07.x", fn, "%s advances for every object of the loop" % au.short(st, 50), not skips,
                       "`%s` is skipped when `%s` holds, although the object whose variables it counts already exists at that point: its "
                       "variables are in c, l and u but the numbering of everything that follows does not account for them - the assets "
                       "listed after it point at its costs and bounds (the result depends on the order of the assets)" % (
                           au.short(st, 50), au.short(skips[0].test, 60) if skips else ""), node=(skips[0] if skips else st))
    # ================================================================= C07.aa label of a mapping row added by a wrapper
    n_aa = 0
    for fn in sorted(p.all_functions(), key=lambda f: f.qualname):
        if fn.parent is not None or fn.cls is None or fn.cls.name not in ("ScaledAsset", "StructuredAsset", "LinkedAsset", "Portfolio"):
            continue
        cn = None
        for st in au.walk_stmts(fn.body):
            if not (isinstance(st, ast.Assign) and len(st.targets) == 1 and isinstance(st.targets[0], ast.Subscript)):
                continue
            t = st.targets[0]
            if not (isinstance(t.value, ast.Attribute) and t.value.attr == "loc" and not isinstance(t.slice, (ast.Tuple, ast.Slice, ast.Compare))):
                continue
            frame = t.value.value
            if not ((isinstance(frame, ast.Attribute) and frame.attr == "mapping") or (isinstance(frame, ast.Name) and _is_mapping_local(ctx, fn, frame, st))):
                continue
            lab = ctx.resolve(fn, t.slice, st)
            from_labels = any(isinstance(x, ast.Attribute) and x.attr == "index" for x in au.walk_local(lab)) or \
                any(isinstance(x, ast.Call) and isinstance(x.func, ast.Name) and x.func.id == "len" and x.args and au.U(x.args[0]) == au.U(frame) for x in au.walk_local(lab))
            cn = cn or Counter(ctx, fn)
            got = cn.count(lab, st)
            if not from_labels and got not in (VAR, ROW):
                continue
            n_aa += 1
            ctx.ob("C07.aa", fn, au.short(st, 80), got == VAR and not from_labels,
                   "the new row is labelled %s, which is %s: it is the number of the new variable only if the last variable of the wrapped problem "
                   "has a mapping row. An order book whose last order lies outside the horizon ends with a variable without rows - the row of the "
                   "new variable then lands on that dead variable, its own costs have no row (the reported value differs from the sum of the "
                   "cash-flow table) and the portfolio attaches its column to the wrong variable" % (
                       au.short(lab, 40), "derived from the labels already in the mapping" if from_labels else "a number of rows"), node=st,
                   ok_detail="%s is a number of variables" % au.short(lab, 40))
    if n_aa == 0:
        ctx.ob("C07.aa", "package", "mapping rows added by wrappers", None, "no wrapper adds a mapping row by label")

    # ================================================================= C07.ab carriers are not thinned out once labels exist
    n_ab = 0
    for fn in sorted(p.all_functions(), key=lambda f: f.qualname):
        if fn.parent is not None or fn.name != "setup_optim_problem" or fn.cls is None:
            continue
        roles = local_roles(fn)
        if not roles:
            continue
        var_locals = {nm for nm, r in roles.items() if r in ("c", "l", "u")} if isinstance(roles, dict) else set()
        # the first statement that writes labels / rows of a mapping
        map_lines = [st.lineno for st in au.walk_stmts(fn.body) if isinstance(st, ast.Assign) and any(
            (isinstance(t0, ast.Subscript) and au.const_str(t0.slice) in ("time_step", "var_name", "asset")) or
            (isinstance(t0, ast.Name) and "mapping" == role(t0, roles)) for t0 in st.targets)]
        if not map_lines:
            continue
        first_map = min(map_lines)
        for st in au.walk_stmts(fn.body):
            if not isinstance(st, ast.Assign) or st.lineno <= first_map:
                continue
            pairs = []
            for t0 in st.targets:
                if isinstance(t0, (ast.Tuple, ast.List)) and isinstance(st.value, (ast.Tuple, ast.List)) and len(t0.elts) == len(st.value.elts):
                    pairs += list(zip(t0.elts, st.value.elts))
                else:
                    pairs.append((t0, st.value))
            for t0, v in pairs:
                r = role(t0, roles)
                if r not in ("c", "l", "u") or not isinstance(v, ast.Subscript) or role(v.value, roles) != r:
                    continue
                sl = v.slice
                if isinstance(sl, ast.Slice) and sl.lower is None and sl.upper is None:
                    continue
                n_ab += 1
                ctx.ob("C07.ab", fn, au.short(st, 80), False,
                       "%s is replaced by a selection of itself (%s) after the mapping rows were given their labels: the labels keep numbering the "
                       "variables as they were before - rows of later variables point at other variables or past the end of the vectors (an "
                       "order outside the horizon listed before one inside it: the rows of the second point at variable 4 of 3)" % (
                           r, au.short(v, 40)), node=st)
    ctx.ob("C07.ab", "package", "selections of c / l / u after the mapping was labelled", True,
           ok_detail="%d selections found" % n_ab)

    ctx.require(n_x >= 1, "no running offset of variable counts found", rules=["C07.x"])
    ctx.require(n_q >= 15, "fewer than 15 typed count uses found", rules=['C07.q'])
    ctx.require(n_g >= 1, "no typed count use found in the stochastic extension", rules=['C17.g'])


def _is_mapping_local(ctx, fn, name, st) -> bool:
    from .spaces import Typer
    ty = ctx.memo(("typer", fn.qualname), lambda: Typer(ctx, fn)) if hasattr(ctx, "memo") else Typer(ctx, fn)
    return ty.is_mapping(name, st)
