"""Which local variable plays which role of the problem (c l u A b cType mapping)?

Rules must not depend on local-variable names (DESIGN section 1).  The *schema* names are the keyword arguments of
OptimProblem(...) and the attributes of a problem object; a local is a carrier because it is passed as such a keyword (or
returned as the cost vector under costs_only, or is the accumulator another carrier is grown from).
"""
from __future__ import annotations
import ast
from . import astutil as au

ROLES = ("c", "l", "u", "A", "b", "cType", "mapping", "map_nodal_restr")
POSITIONAL = ["c", "l", "u", "A", "b", "cType", "mapping"]   # OptimProblem.__init__(c, l, u, A, b, cType, mapping, ...)


def local_roles(fn) -> dict:
    """{local name: role} for one function."""
    roles = {}
    node = fn.node if hasattr(fn, "node") else fn
    flag_returns = []
    for n in au.walk_local(node, include_self=False):
        if isinstance(n, ast.Call) and au.method_name(n) == "OptimProblem":
            for k in n.keywords:
                if k.arg in ROLES and isinstance(k.value, ast.Name):
                    roles.setdefault(k.value.id, k.arg)
            for i, a in enumerate(n.args):
                if i < len(POSITIONAL) and isinstance(a, ast.Name):
                    roles.setdefault(a.id, POSITIONAL[i])
        elif isinstance(n, ast.If) and isinstance(n.test, ast.Name) and n.test.id == "costs_only":
            for s in n.body:
                if isinstance(s, ast.Return) and isinstance(s.value, ast.Name):
                    roles.setdefault(s.value.id, "c")
        elif isinstance(n, ast.Assign) and len(n.targets) == 1 and isinstance(n.targets[0], ast.Attribute) and n.targets[0].attr in ROLES \
                and isinstance(n.value, ast.Name) and au.base_name(n.targets[0]) != "self":
            roles.setdefault(n.value.id, n.targets[0].attr)       # op.b = b
    # a tuple (A, b, cType) returned by a row-building helper
    for n in au.walk_local(node, include_self=False):
        if isinstance(n, ast.Return) and isinstance(n.value, ast.Tuple) and len(n.value.elts) == 3 and all(isinstance(e, ast.Name) for e in n.value.elts) \
                and not roles:
            for e, r in zip(n.value.elts, ("A", "b", "cType")):
                roles.setdefault(e.id, r)
    # accumulators: x = hstack((y, ..)) / x = x + .. where x is a carrier make y a carrier of the same role (fix-point)
    changed = True
    while changed:
        changed = False
        for n in au.walk_local(node, include_self=False):
            if isinstance(n, ast.Assign) and len(n.targets) == 1 and isinstance(n.targets[0], ast.Name) and n.targets[0].id in roles:
                v = n.value
                first = None
                if isinstance(v, ast.Call) and au.method_name(v) in ("hstack", "vstack", "concatenate", "append") and v.args:
                    a0 = v.args[0]
                    first = a0.elts[0] if isinstance(a0, (ast.Tuple, ast.List)) and a0.elts else a0
                elif isinstance(v, ast.BinOp) and isinstance(v.op, ast.Add):
                    first = v.left
                if isinstance(first, ast.Name) and first.id not in roles:
                    roles[first.id] = roles[n.targets[0].id]
                    changed = True
    return roles


def role(node, roles: dict):
    """Role of an expression: attribute of a problem object (op.c) or a local carrier."""
    if isinstance(node, ast.Attribute) and node.attr in ROLES:
        return node.attr
    if isinstance(node, ast.Name):
        return roles.get(node.id)
    return None
