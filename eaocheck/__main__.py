"""CLI:  /venv/bin/python -m eaocheck --property C07 [--tier quick|thorough] [--repo /repo] [--replay file]

exit 0  OK (plus KNOWN-FINDING lines)        exit 1  VIOLATION property=<id> replay=<path>
exit 2  ANALYSIS-ERROR (the analysis itself could not run; never a silent pass, never reported as a violation)
"""
from __future__ import annotations
import argparse
import json
import os
import sys
import time
import traceback

from . import tables
from .ir import Program, AnalysisError
from .report import (Context, Outcome, load_known, write_evidence, write_replay, VIOLATED, UNDECIDED, NOTE, HOLDS,
                     KNOWN_FILE)
from . import rules as rules_pkg
from . import properties as props_text


def run_property(prop: str, tier: str, repo: str, seed: int = 0, only_rules=None):
    """Run every analysis that serves `prop`; returns (Outcome, Program|None, rules_run)."""
    t0 = time.time()
    analyses = rules_pkg.load_all()
    out = Outcome(prop, tier, [])
    program = None
    rules_run = []
    try:
        program = Program(repo)
        ctx = Context(program, tier, seed)
        anchor_errors = []
        for a in analyses:
            mine = [r for r in a.emits if prop in tables.serves(r)]
            if only_rules is not None:
                mine = [r for r in mine if r in only_rules]
            if not mine:
                continue
            n0 = len(ctx.obs)
            ctx.current_rules = mine
            try:
                a.func(ctx)
            except AnalysisError as e:
                # an anchor of this analysis vanished: the other analyses of the property still run - a definite violation found by one of
                # them stands (exit 1); without one the run ends as ANALYSIS-ERROR (exit 2), never as a pass
                anchor_errors.append("%s: %s" % (a.name, e))
            # keep only obligations of rules that serve this property
            kept = [o for o in ctx.obs[n0:] if o.rule in mine]
            del ctx.obs[n0:]
            ctx.obs.extend(kept)
            rules_run.extend(mine)
        out.obs = ctx.obs
        # floors: no rule may pass vacuously
        counts = {}
        for o in out.obs:
            if o.verdict != NOTE:
                counts[o.rule] = counts.get(o.rule, 0) + 1
        for r in rules_run:
            fl = tables.FLOORS.get(r, 1)
            if counts.get(r, 0) < fl:
                out.floors_missing.append("%s: %d instance(s) found, floor %d" % (r, counts.get(r, 0), fl))
        out.floors_missing = anchor_errors + out.floors_missing
        if out.floors_missing:
            # a floor guards against a *vacuous pass*.  When another rule of the property reports a definite, unlisted violation
            # on the same tree, that report stands (exit 1); the missing instances are mentioned, not turned into exit 2.
            from .report import load_known as _lk
            new_v, _ = out.violations(_lk())
            if new_v:
                out.floor_note = "anchor(s) below the confirmed floor (not fatal next to a definite violation): " + "; ".join(out.floors_missing)
            else:
                out.error = "anchor(s) below the confirmed floor: " + "; ".join(out.floors_missing)
        if not rules_run:
            out.error = "no rule registered for property %s" % prop
    except AnalysisError as e:
        out.error = str(e)
    except Exception:  # internal traceback: analysis error, never a violation
        out.error = "internal error: " + traceback.format_exc(limit=8).replace("\n", " | ")
    out.wall_s = time.time() - t0
    return out, program, rules_run


def report(out: Outcome, program, rules_run, seed: int, quiet: bool = False, write: bool = True) -> int:
    known = load_known()
    new, listed = out.violations(known)
    if write:
        write_evidence(out, program, rules_run, props_text.explanation(out.property_id, rules_run), known,
                       tables.COMMON_ASSUMPTIONS + props_text.assumptions(out.property_id), seed)
    p = out.property_id
    if out.error:
        print("ANALYSIS-ERROR property=%s %s" % (p, out.error))
        # violations found before the error are still worth reading
    for o in out.obs:
        if o.verdict == UNDECIDED and not quiet:
            print("UNDECIDED rule=%s where=%s construct=%s reason=%s" % (o.rule, o.where or o.fn, o.construct, o.detail))
    for o in out.obs:
        if o.verdict == NOTE and not quiet:
            print("NOTE rule=%s where=%s %s: %s" % (o.rule, o.where or o.fn, o.construct, o.detail))
    for o, k in listed:
        print("KNOWN-FINDING: property=%s rule=%s %s [%s] %s" % (p, o.rule, k.get("what", ""), o.where or o.fn, o.construct))
    for o, _ in new:
        path = write_replay(p, o) if write else "<not written>"
        print("VIOLATION property=%s replay=%s" % (p, path))
        print("  rule=%s (%s)" % (o.rule, tables.TITLES.get(o.rule, "")))
        print("  where=%s" % (o.where or o.fn))
        print("  construct=%s" % o.construct)
        print("  detail=%s" % o.detail)
    n_ob = sum(1 for o in out.obs if o.verdict != NOTE)
    n_ok = sum(1 for o in out.obs if o.verdict == HOLDS)
    if new:
        print("FAIL property=%s obligations=%d discharged=%d new_violations=%d known=%d" % (p, n_ob, n_ok, len(new), len(listed)))
        return 1
    if out.error:
        return 2
    print("OK property=%s obligations=%d discharged=%d undecided=%d known_findings=%d wall=%.2fs" % (
        p, n_ob, n_ok, sum(1 for o in out.obs if o.verdict == UNDECIDED), len(listed), out.wall_s))
    return 0


def main(argv=None) -> int:
    ap = argparse.ArgumentParser(prog="eaocheck")
    ap.add_argument("--property", "-p", required=False)
    ap.add_argument("--tier", default=os.environ.get("VERIF_TIER", "quick"), choices=["quick", "thorough"])
    ap.add_argument("--repo", default=os.environ.get("EAO_REPO", "/repo"))
    ap.add_argument("--replay", default=None, help="replay file written for a violation: re-run exactly that rule instance")
    ap.add_argument("--quiet", action="store_true")
    ap.add_argument("--no-write", action="store_true", help="do not write evidence / replay files (used on scratch copies)")
    ap.add_argument("--all", action="store_true", help="run every property (development aid)")
    ap.add_argument("--dump", action="store_true", help="print every obligation (development aid)")
    args = ap.parse_args(argv)
    try:
        seed = int(os.environ.get("VERIF_SEED", "0"))
    except ValueError:
        seed = 0

    if args.replay:
        with open(args.replay, "r", encoding="utf-8") as f:
            rp = json.load(f)
        out, program, rules_run = run_property(rp["property"], args.tier, args.repo, seed, only_rules={rp["rule"]})
        hit = [o for o in out.obs if o.key == rp["key"]]
        if out.error:
            print("ANALYSIS-ERROR property=%s %s" % (rp["property"], out.error))
            return 2
        if not hit:
            print("REPLAY property=%s rule=%s: the construct no longer exists in the current tree (%s)" % (
                rp["property"], rp["rule"], rp["key"]))
            return 0
        rc = 0
        for o in hit:
            print("REPLAY property=%s rule=%s verdict=%s where=%s\n  construct=%s\n  detail=%s" % (
                rp["property"], o.rule, o.verdict, o.where, o.construct, o.detail))
            if o.verdict == VIOLATED:
                rc = 1
        return rc

    plist = tables.ALL_PROPERTIES if args.all else [args.property]
    if not plist or plist == [None]:
        ap.error("--property or --all required")
    worst = 0
    for p in plist:
        out, program, rules_run = run_property(p, args.tier, args.repo, seed)
        if args.tier == "thorough" and not out.error:
            from . import selfval
            out.extra.update(selfval.run(p, args.repo, seed))
        if args.dump:
            for o in out.obs:
                print("%-9s %-8s %s | %s | %s" % (o.verdict, o.rule, o.where or o.fn, o.construct, o.detail[:140]))
        rc = report(out, program, rules_run, seed, quiet=args.quiet, write=not args.no_write)
        worst = max(worst, rc)
    return worst


if __name__ == "__main__":
    try:
        sys.exit(main())
    except SystemExit:
        raise
    except BaseException:
        print("ANALYSIS-ERROR internal: " + traceback.format_exc(limit=6).replace("\n", " | "))
        sys.exit(2)
