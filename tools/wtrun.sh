#!/bin/bash
# development aid: tools/wtrun.sh <worktree name under /tmp/wt> <property ...>  - runs quick checks against /repo's package + that worktree's change.diff
S=$1; shift
T=$(mktemp -d /tmp/seedrun_XXXX)
cp -r /repo/eaopack $T/eaopack
(cd $T && patch -p1 -s --no-backup-if-mismatch -i /tmp/wt/$S/change.diff) || { echo "patch failed"; rm -rf $T; exit 2; }
cd /verif
for P in "$@"; do EAO_REPO=$T /venv/bin/python -m eaocheck --property $P --no-write 2>&1 | grep -v "^KNOWN-FINDING" ; done
rm -rf $T
