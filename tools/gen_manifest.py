#!/venv/bin/python
"""Regenerate /verif/MANIFEST.json from the rule registry (claimed properties = those with at least one registered rule).

The wording per property lives in tools/manifest_text.py; nothing here is evidence.
"""
import json
import os
import sys

HERE = os.path.dirname(os.path.abspath(__file__))
ROOT = os.path.dirname(HERE)
sys.path.insert(0, ROOT)
sys.path.insert(0, HERE)

from eaocheck import tables, rules  # noqa: E402
import manifest_text as mt  # noqa: E402

PY = "/venv/bin/python"


def main():
    analyses = rules.load_all()
    served = {}
    for a in analyses:
        for r in a.emits:
            for p in tables.serves(r):
                served.setdefault(p, []).append(r)
    checks, na = [], []
    for p in tables.ALL_PROPERTIES:
        if p in served and p not in mt.NOT_APPLICABLE:
            checks.append({
                "property_id": p,
                "quick_cmd": "%s -m eaocheck --property %s --tier quick" % (PY, p),
                "thorough_cmd": "%s -m eaocheck --property %s --tier thorough" % (PY, p),
                "evidence_file": "/verif/evidence/%s.json" % p,
                "replay_cmd_template": "%s -m eaocheck --replay {path}" % PY,
                "engine": "eaocheck",
                "level_claimed": {
                    "category": "other",
                    "text": mt.LEVEL_TEXT[p] + " Rules: " + ", ".join(sorted(set(served[p]))) + ".",
                    "design_ref": "DESIGN.md section 6 (%s), section 1 (stance), section 11 (what was built)" % p,
                },
                "level_note": mt.LEVEL_NOTE,
                "technique": mt.TECHNIQUE.get(p, "static rule checking on the AST (custom dataflow / typestate / agreement rules)"),
            })
        else:
            na.append({"property_id": p, "reason": mt.NOT_APPLICABLE.get(p, "no static rule built yet for this property")})
    manifest = {
        "version": 1,
        "setup_cmd": "%s -m eaocheck.selftest --setup" % PY,
        "hooks": {
            "guard": "EAO_VERIF",
            "enable": "none needed: the checks only parse /repo/eaopack/*.py; nothing in /repo is instrumented (guard name reserved, unused)",
            "baseline_off_cmd": "cd /repo && /venv/bin/python -m pytest -ra -q -p no:cacheprovider --timeout=900 --continue-on-collection-errors",
            "source_commits": [],
            "add_only": True,
        },
        "engines": [{
            "name": "eaocheck",
            "path": "/verif/eaocheck",
            "serves_properties": [c["property_id"] for c in checks],
            "kind_free_text": "repository-specific static analysis in pure stdlib ast: program model with MRO and call resolution, "
                              "structured forward walker with trace partitioning, reaching definitions / origins, alias-and-effect "
                              "analysis, typestate, index-space and agreement rules; known-findings file; self-validation by AST mutants",
        }],
        "checks": checks,
        "not_applicable": na,
        "notes": mt.NOTES,
    }
    with open(os.path.join(ROOT, "MANIFEST.json"), "w") as f:
        json.dump(manifest, f, indent=1)
    print("claimed:", [c["property_id"] for c in checks])
    print("not applicable:", [x["property_id"] for x in na])


if __name__ == "__main__":
    main()
