#!/bin/bash
# usage: apply_fix.sh <patch file>   -- applies one drafted repair to /repo as one unguarded "fix:" commit
set -e
P="$1"
SUBJ=$(python3 - "$P" <<'PY'
import sys,re
s=open(sys.argv[1]).read()
m=re.search(r'^Subject: \[PATCH[^\]]*\] (.*?)\n(?:\n|---)', s, re.S|re.M)
print(' '.join(m.group(1).split()))
PY
)
cd /repo
git apply --whitespace=nowarn "$P"
git add -u eaopack
git commit -q -m "$SUBJ"
git log --oneline -1
