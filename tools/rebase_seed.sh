#!/bin/bash
# development aid: tools/rebase_seed.sh <seed id> [sed expression applied to the patch first]
# re-creates seeded/<id>/patch.diff against /repo's current package when a later fix: commit changed its context
# (the original is kept as patch_orig.diff); the change itself (the '+' lines) stays as the sub-agent wrote it.
S=$1; SED=$2
D=/verif/seeded/$S
T=$(mktemp -d /tmp/rb_XXXX)
mkdir -p $T/a $T/b
cp -r /repo/eaopack $T/a/eaopack; cp -r /repo/eaopack $T/b/eaopack
find $T -name __pycache__ -prune -exec rm -rf {} \;
[ -f $D/patch_orig.diff ] || cp $D/patch.diff $D/patch_orig.diff
if [ -n "$SED" ]; then sed -e "$SED" $D/patch_orig.diff > $T/p.diff; else cp $D/patch_orig.diff $T/p.diff; fi
(cd $T/b && patch -p1 -F3 -s --no-backup-if-mismatch -i $T/p.diff) || { echo "still does not apply"; rm -rf $T; exit 1; }
(cd $T && diff -u -r a/eaopack b/eaopack | sed 's#^diff -u -r a/eaopack/\(.*\) b/eaopack/.*#diff --git a/eaopack/\1 b/eaopack/\1#' | grep -v "^Only in" > $D/patch.diff)
sed -i 's#^--- a/\(eaopack[^\t]*\)\t.*#--- a/\1#; s#^+++ b/\(eaopack[^\t]*\)\t.*#+++ b/\1#' $D/patch.diff
rm -rf $T
grep -c "^[+-][^+-]" $D/patch.diff
