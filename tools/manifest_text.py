"""Wording of MANIFEST.json per property (what assurance, why this level). See DESIGN.md appendix H."""

LEVEL_NOTE = ("trusted base = CPython's ast module, the schema vocabulary of DESIGN.md section 3, the frozen tables of "
              "eaocheck/tables.py; exceptions are not modelled as control flow; library calls outside the modelled surface are "
              "assumed not to mutate their arguments; an unmodelled value is UNDECIDED (printed, exit 0), never a violation; the "
              "behaviour named in the property is not executed or solved")

LEVEL_TEXT = {
    "C01": "Decides, for every path, structural necessary conditions of nodal balance: nodal rows are built from the same factor "
           "column and selector the dispatch report uses, every node an asset can write is in the portfolio's registry, wrapped "
           "portfolios balance each node exactly once, the minor-grid weight is applied once. Does not decide that a returned "
           "solution satisfies the rows.",
    "C02": "Decides necessary conditions of agreeing with the documented model: time- and discount-homogeneity of bounds, costs "
           "and take formulas, consistent in/out roles and cost signs, take sign vs row letter. Equality of optima with a "
           "reference model is not decided.",
    "C03": "Decides the translation clause: every row letter any code can produce is translated by every interface with the "
           "documented relation and one row selector, bounds and boolean flags reach the solver, success is reported only for "
           "status optimal. The solver is trusted.",
    "C04": "Decides ownership of every variable by exactly one asset, de-duplication and sign in the cash-flow extraction, and "
           "agreement of split re-basing with concatenation order. The numeric identity is not decided.",
    "C05": "Decides that the reported fill level depends on every parameter of the level model, that storage report rows are "
           "selected by the storage's own identity, level band / end-level forms, in/out roles and block-local cumulation. Level "
           "bounds of a concrete solution are not decided.",
    "C06": "Decides only a small structural part: virtual dispatch is one linear form everywhere (column offset and factor index "
           "agree), fuel rows carry the documented factors as dispatch at the fuel node, sibling start/shutdown definitions agree, "
           "binaries are binaries. Admitted on/off patterns are not decided.",
    "C07": "Decides injectivity and completeness of the variable numbering, lockstep growth of per-variable and per-row carriers, "
           "label discipline of the mapping, schema-complete mappings on every return and presence of the sanity assertions.",
    "C08": "Decides that time steps written to a mapping originate in the asset's restricted grid, that empty windows are guarded "
           "and yield well-formed problems, the half-open window convention and that proration depends on covered duration. "
           "Invariance of optima is not decided.",
    "C09": "Decides that names are only compared or used as labels (never ordered, sliced or matched by substring), that every "
           "name concatenation later joined on or used as a label is injective, that no report row is selected through a stale "
           "loop binding and that the uniqueness guard executes.",
    "C10": "Decides, over the call graph, that no public function writes call-dependent state into user data or other assets, "
           "that the shared grid cache is re-established before each read, ordering of discounting and sub-grid creation, "
           "null-safety of the documented 'grid set before' path and that mutable defaults are never mutated.",
    "C11": "Decides agreement of persisted attributes, constructor signatures, serializer pop list, tags and reader branches for "
           "every asset class, Timegrid, Node, Unit, Portfolio. Value fidelity of individual timestamps/floats is not decided.",
    "C12": "Decides time-homogeneity of the formulas (hence invariance under a change of main time unit, given the seed table), "
           "typed use of main_time_unit, and that derived grids inherit the unit.",
    "C13": "Decides that an accepted periodicity/freq option is applied (last) or rejected for every class, index-space correctness "
           "and single application of weights in the minor-grid extension, value-preserving aggregators of the periodic merge and "
           "sparse-format typestate. Equality with the constrained fine problem is not decided.",
    "C14": "Decides unit/reference inheritance of interval grids, agreement of index/step re-basing with concatenation, restoration "
           "of the full grid, cover of the horizon by the intervals and that no state is carried between intervals through "
           "arguments. Equality / ordering of split and unsplit optima is not decided.",
    "C15": "Decides that the window selector and the pinned vectors live in the same index space for any number of mapping rows "
           "per variable, that only bounds are written, null- and zone-safety of the window argument and that the argument is not "
           "rewritten.",
    "C16": "Decides lockstep and scale-homogeneity of the scaled formulation, ownership, the exactly-once partition of nodes in "
           "structured assets, column spaces of the scaling rows and tolerance of wrappers for costs_only and empty windows. "
           "Equivalence of optima is not decided.",
    "C17": "Decides that cost-only vectors have the length of the full problem's cost vector for every class, selector / divisor / "
           "block agreement in the SLP construction, label preservation and the epigraph sign of the robust target. The "
           "inequalities of the property are not decided.",
    "C18": "Decides the bookkeeping that ties each reported price to its constraint, node and step, including problems that "
           "contain inner portfolios and split problems. Sign, scale and the supergradient inequality are not decided.",
    "C19": "Decides the half-open interval convention at every membership test, the overlap guard, same-selector restriction and "
           "zone normalisation of user dates. Calendar arithmetic of pandas is trusted.",
    "C20": "Decides bounds, boolean flag, same-selector and homogeneity of order cost and delivery, zone normalisation of order "
           "dates and the numbering of orders without in-horizon steps. Equality with a reference formulation is not decided.",
}

TECHNIQUE = {
    "C03": "static analysis: alphabet coverage and relation agreement over reaching definitions (ast)",
    "C05": "static analysis: stale-binding dataflow, parameter agreement, linear forms over named atoms (ast)",
    "C07": "static analysis: key injectivity, lockstep pairing, frame typestate, must-precede (ast)",
    "C09": "static analysis: opacity / injectivity of names, stale-binding dataflow (ast)",
    "C10": "static analysis: alias-and-effect analysis over the call graph, grid-cache typestate, nullness with trace partitioning (ast)",
    "C11": "static analysis: attribute / constructor / pop-list / tag agreement computed from the class hierarchy (ast)",
}

NOT_APPLICABLE = {}

NOTES = ("All checks are one CLI (/venv/bin/python -m eaocheck). exit 0 OK (+ KNOWN-FINDING lines from /verif/known_findings.jsonl), "
         "exit 1 VIOLATION, exit 2 ANALYSIS-ERROR (anchor vanished / internal error; never a silent pass). Thorough tier = the "
         "same rules plus self-validation of the checker by AST mutants and neutral twins on scratch copies (results in the "
         "evidence, never in the exit code). /verif/witness and /verif/witness/sweeps are dynamic triage material from the design "
         "round, not checks. /verif/seeded holds independently written breaking changes and which rule catches each.")
