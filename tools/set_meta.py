#!/usr/bin/env python3
"""usage: set_meta.py <seed id> breaks=Cxx change="..." needs="..." first="..."   (development aid)"""
import sys, json
sid = sys.argv[1]
p = '/verif/seeded/%s/meta.json' % sid
m = json.load(open(p))
names = {"breaks": "breaks_property", "change": "change", "needs": "needs_to_manifest", "first": "first_run", "note": "note"}
for a in sys.argv[2:]:
    k, v = a.split("=", 1)
    m[names[k]] = v
m.setdefault("author", "independent sub-agent given only the property text and a scratch worktree")
json.dump(m, open(p, 'w'), indent=1)
