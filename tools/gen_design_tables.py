#!/venv/bin/python
"""Refresh the generated tables of DESIGN.md (between BEGIN/END GENERATED markers) from seeded/*/meta.json,
known_findings.jsonl and the rule registry."""
import json, glob, os, re, sys
ROOT = os.path.dirname(os.path.dirname(os.path.abspath(__file__)))
sys.path.insert(0, ROOT)
from eaocheck import rules, tables

def seeded_table():
    rows = ["| seed | breaks | change (independent author) | needs, to manifest | first run | now reported by |", "|---|---|---|---|---|---|"]
    n = caught = 0
    for mp in sorted(glob.glob(os.path.join(ROOT, "seeded", "*", "meta.json"))):
        m = json.load(open(mp))
        n += 1
        first = m.get("first_run", "?")
        if first.startswith("caught"):
            caught += 1
        det = m.get("detected_by", "")
        rows.append("| %s | %s | %s | %s | %s%s | %s |" % (m["id"], m.get("breaks_property", "?"), m.get("change", "?").replace("|", "/"),
                    m.get("needs_to_manifest", "?").replace("|", "/"), first.replace("|", "/"),
                    (" -> " + m["strengthened_by"].replace("|", "/")) if m.get("strengthened_by") else "", det or "**nothing**"))
    rows.append("")
    rows.append("%d seeded changes; %d reported on the first run of the checks as they were when the change arrived; all others led to the "
                "strengthening named in the 'first run' column." % (n, caught))
    return "\n".join(rows)

def defects_table():
    rows = ["| defect | status | commit | rule (key) | what failed |", "|---|---|---|---|---|"]
    for l in open(os.path.join(ROOT, "known_findings.jsonl")):
        l = l.strip()
        if not l.startswith("{"):
            continue
        d = json.loads(l)
        what = d.get("what") or d.get("text", "")
        what = re.sub(r"^fixed: property=\S+ \S+ ", "", what)
        rows.append("| %s | %s | %s | %s | %s |" % (d.get("defect", ""), d["status"], d.get("commit", "-"), d["key"].replace("|", " / "), what.replace("|", "/")[:260]))
    return "\n".join(rows)

def rules_table():
    an = rules.load_all()
    rows = ["| rule | serves | statement | analysis (eaocheck/rules/...) |", "|---|---|---|---|"]
    floors = json.load(open(os.path.join(ROOT, "eaocheck", "floors.json")))
    for a in an:
        for r in a.emits:
            rows.append("| %s | %s | %s | %s (instances on the clean tree: %s) |" % (r, " ".join(tables.serves(r)), tables.TITLES.get(r, "").replace("|", "/"),
                        a.func.__module__.split(".")[-1], floors["counts_on_clean_tree"].get(r, "?")))
    return "\n".join(rows)

GEN = {"seeded": seeded_table, "defects": defects_table, "rules": rules_table}
p = os.path.join(ROOT, "DESIGN.md")
s = open(p).read()
for name, f in GEN.items():
    b, e = "<!-- BEGIN GENERATED %s -->" % name, "<!-- END GENERATED %s -->" % name
    if b in s and e in s:
        s = s[: s.index(b) + len(b)] + "\n" + f() + "\n" + s[s.index(e):]
open(p, "w").write(s)
print("tables refreshed")
