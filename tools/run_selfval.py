#!/venv/bin/python
"""Development aid: run the self-validation of every property in parallel and summarise."""
import sys, os, json
sys.path.insert(0, os.path.dirname(os.path.dirname(os.path.abspath(__file__))))
from concurrent.futures import ProcessPoolExecutor
import io, contextlib

def one(p):
    from eaocheck import selfval
    buf = io.StringIO()
    with contextlib.redirect_stdout(buf):
        r = selfval.run(p, "/repo")
    return p, r, buf.getvalue()

if __name__ == "__main__":
    props = sys.argv[1:] or ["C%02d" % i for i in range(1, 21)]
    with ProcessPoolExecutor(12) as ex:
        for p, r, out in ex.map(one, props):
            for l in out.splitlines():
                if l.startswith("SELFTEST"):
                    print(l[:260])
            na = r["selfval"].get("breakers", {}).get("not_applicable")
            if na:
                print("   not applicable:", na)
            for k in ("pinned_regression", "breakers", "neutral_twins"):
                if "error" in r["selfval"].get(k, {}):
                    print("   ERROR", k, r["selfval"][k]["error"])
