#!/bin/bash
# usage: confirm_seed.sh <worktree> <seed id>
# Confirms an independently written breaking change (source of truth: <worktree>/change.diff and <worktree>/demo.py):
# (1) the unedited suite passes with it, (2) its demo fails with it, (3) the demo passes without it; then runs every quick
# check against the changed tree (EAO_REPO=<worktree>, nothing written) and stores patch + demo + meta.json under
# /verif/seeded/<id>/.  No git stash is used (the stash is shared between worktrees).
WT="$1"; ID="$2"
OUT=/verif/seeded/$ID
mkdir -p $OUT
cd $WT || exit 2
[ -s change.diff ] || { echo "no change.diff in $WT"; exit 2; }
cp change.diff $OUT/patch.diff
cp demo.py $OUT/demo.py 2>/dev/null
git checkout -q -- eaopack
git apply $OUT/patch.diff || { echo "patch does not apply"; exit 2; }
T=$(timeout 1200 /venv/bin/python -m pytest -q -p no:cacheprovider -x -n 8 --timeout=900 2>&1 | tail -1)
D1=$(timeout 900 /venv/bin/python demo.py 2>&1 | tail -1)
timeout 900 /venv/bin/python demo.py >/dev/null 2>&1; R1=$?
git apply -R $OUT/patch.diff
D0=$(timeout 900 /venv/bin/python demo.py 2>&1 | tail -1)
timeout 900 /venv/bin/python demo.py >/dev/null 2>&1; R0=$?
git apply $OUT/patch.diff
rm -f .coverage
cd /verif
DET=""
for i in $(seq -w 1 20); do
  O=$(EAO_REPO=$WT /venv/bin/python -m eaocheck --property C$i --no-write --quiet 2>&1)
  RC=$?
  if [ $RC -eq 1 ]; then
     RULES=$(echo "$O" | grep -E "^  rule=" | sed 's/^  rule=\([A-Z0-9.a-z]*\).*/\1/' | sort -u | tr '\n' ',' )
     DET="$DET C$i[$RULES]"
  elif [ $RC -eq 2 ]; then DET="$DET C$i[ANALYSIS-ERROR]"; fi
done
echo "seed=$ID"
echo "tests_with_change: $T"
echo "demo_with_change(rc=$R1): $D1"
echo "demo_without_change(rc=$R0): $D0"
echo "detected_by:$DET"
python3 - "$ID" "$T" "$R1" "$D1" "$R0" "$D0" "$DET" <<'PY'
import sys, json, os
sid, t, r1, d1, r0, d0, det = sys.argv[1:8]
p = '/verif/seeded/%s/meta.json' % sid
meta = json.load(open(p)) if os.path.exists(p) else {}
meta.update({"id": sid, "confirmed": {"tests_with_change": t, "demo_with_change_rc": int(r1), "demo_with_change": d1[:400],
             "demo_without_change_rc": int(r0), "demo_without_change": d0[:200]},
             "ran": ["cd <scratch worktree> && git apply patch.diff && /venv/bin/python -m pytest -q -p no:cacheprovider -x -n 8 --timeout=900",
                     "/venv/bin/python demo.py (with the change: must fail; after git apply -R: must pass)",
                     "EAO_REPO=<scratch worktree> /venv/bin/python -m eaocheck --property C01..C20 --no-write --quiet"],
             "detected_by": det.strip()})
json.dump(meta, open(p, 'w'), indent=1)
PY
