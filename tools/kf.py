#!/venv/bin/python
"""Development aid: print one JSON line per *unlisted* violation found on the current tree (for triage into
known_findings.jsonl by hand). Never run by a check; the checks never write to known_findings.jsonl."""
import json, sys, os
sys.path.insert(0, os.path.dirname(os.path.dirname(os.path.abspath(__file__))))
from eaocheck.__main__ import run_property
from eaocheck import tables
from eaocheck.report import load_known, match_known, VIOLATED
seen = set()
known = load_known()
for p in tables.ALL_PROPERTIES:
    out, prog, rr = run_property(p, "quick", os.environ.get("EAO_REPO", "/repo"))
    if out.error:
        print("#", p, "ERROR", out.error, file=sys.stderr)
    for o in out.obs:
        if o.verdict == VIOLATED and o.key not in seen and not match_known(o, known):
            seen.add(o.key)
            print(json.dumps({"rule": o.rule, "key": o.key, "status": "known", "defect": "", "what": "", "witness": "", "_where": o.where, "_detail": o.detail[:160]}))
