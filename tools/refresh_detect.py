#!/venv/bin/python
"""Development aid: re-run every quick check against every seeded change applied to a scratch copy of /repo's *current*
package and rewrite `detected_by` in seeded/<id>/meta.json ("C10[C10.b] C16[C16.h]").  Prints seeds that are not reported
under the property they break.  Never run by a registered check.

usage: tools/refresh_detect.py [seed id ...]
"""
import sys, os, json, glob, shutil, subprocess, tempfile
from concurrent.futures import ProcessPoolExecutor
sys.path.insert(0, os.path.join(os.path.dirname(__file__), ".."))
VERIF = os.path.abspath(os.path.join(os.path.dirname(__file__), ".."))
REPO = os.environ.get("EAO_REPO", "/repo")
PROPS = ["C%02d" % i for i in range(1, 21)]


def one(sid):
    from eaocheck.__main__ import run_property
    from eaocheck.report import load_known
    d = os.path.join(VERIF, "seeded", sid)
    tmp = tempfile.mkdtemp(prefix="eaocheck_seed_")
    try:
        shutil.copytree(os.path.join(REPO, "eaopack"), os.path.join(tmp, "eaopack"), ignore=shutil.ignore_patterns("__pycache__", "*.pyc"))
        r = subprocess.run(["patch", "-p1", "-s", "--no-backup-if-mismatch", "-i", os.path.join(d, "patch.diff")], cwd=tmp,
                           capture_output=True, text=True)
        if r.returncode != 0:
            return sid, None, "patch does not apply: " + (r.stdout + r.stderr)[:200]
        known = load_known()
        det = []
        for prop in PROPS:
            out, prog, rr = run_property(prop, "quick", tmp)
            if out.error:
                det.append("%s[ANALYSIS-ERROR]" % prop)
                continue
            new, listed = out.violations(known)
            if new:
                det.append("%s[%s]" % (prop, ",".join(sorted({o.rule for o, _ in new}))))
        return sid, " ".join(det), ""
    finally:
        shutil.rmtree(tmp, ignore_errors=True)


def main():
    ids = sys.argv[1:] or sorted(os.path.basename(os.path.dirname(p)) for p in glob.glob(os.path.join(VERIF, "seeded", "*", "meta.json"))
                                 if not json.load(open(p)).get("retired"))
    bad = 0
    with ProcessPoolExecutor(max_workers=14) as ex:
        for sid, det, err in ex.map(one, ids):
            mp = os.path.join(VERIF, "seeded", sid, "meta.json")
            m = json.load(open(mp))
            if det is None:
                print("%-6s %s" % (sid, err))
                bad += 1
                continue
            m["detected_by"] = det
            json.dump(m, open(mp, "w"), indent=1)
            own = m.get("breaks_property")
            hit = any(x.startswith(own + "[") and "ANALYSIS-ERROR" not in x for x in det.split())
            print("%-6s %-4s %s  %s" % (sid, own, "ok  " if hit else "MISS", det))
            bad += 0 if hit else 1
    print("%d seeds, %d not reported under their own property" % (len(ids), bad))
    return 1 if bad else 0


if __name__ == "__main__":
    sys.exit(main())
