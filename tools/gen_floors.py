#!/venv/bin/python
"""Regenerate eaocheck/floors.json: per rule id, 60 % (rounded down, at least 1) of the number of instances found on the
current (clean) tree.  A floor is an *anchor* guard against vacuous passes; it is deliberately well below today's count so
that deleting or rewriting one construct shows up as a VIOLATION of the rule that misses it, not as an analysis error."""
import json, os, sys
sys.path.insert(0, os.path.dirname(os.path.dirname(os.path.abspath(__file__))))
from eaocheck.__main__ import run_property
from eaocheck import tables
from eaocheck.report import NOTE
counts = {}
for p in tables.ALL_PROPERTIES:
    out, prog, rr = run_property(p, "quick", "/repo")
    c = {}
    for o in out.obs:
        if o.verdict != NOTE:
            c[o.rule] = c.get(o.rule, 0) + 1
    for r, n in c.items():
        counts[r] = max(counts.get(r, 0), n)
floors = {r: max(1, int(n * 0.6)) for r, n in sorted(counts.items())}
json.dump({"counts_on_clean_tree": counts, "floors": floors}, open(os.path.join(os.path.dirname(os.path.dirname(os.path.abspath(__file__))), "eaocheck", "floors.json"), "w"), indent=1, sort_keys=True)
print(len(floors), "rules")
