#!/usr/bin/env python3
"""Development aid (never run by a check): writes the task files for one round of independently seeded changes to /tmp/wt.
usage: mk_tasks.py <round letter> <style file> [property ids ...]
The sub-agent sees only the task file (property text + used-ideas list + style) and its own worktree - nothing from /verif."""
import sys, json, glob, os
here = os.path.dirname(os.path.abspath(__file__))
rnd = sys.argv[1]
style = open(sys.argv[2]).read().strip()
only = sys.argv[3:]
general = open(os.path.join(here, 'general_used.txt')).read().rstrip()
tmpl = open(os.path.join(here, 'agent_prompt_template.txt')).read()
props = {}
for line in open('/verif/properties.jsonl'):
    d = json.loads(line)
    props[d['id']] = "Property %s - %s\n\n%s\n\nThis must hold %s." % (d['id'], d['title'], d['statement'], d['quantifier']['text'])
os.makedirs('/tmp/wt', exist_ok=True)
for pid in sorted(props):
    if only and pid not in only:
        continue
    wt = "/tmp/wt/%s%s" % (pid, rnd)
    used = []
    for mp in sorted(glob.glob('/verif/seeded/%s?/meta.json' % pid)):
        m = json.load(open(mp))
        if m.get('change'):
            used.append(" - for this property: " + m.get('change', '').strip())
    block = props[pid] + "\n\nIMPORTANT - be original. Earlier rounds already used the following ideas; do NOT reuse them or close variants (same line / same function with the same trick):\n" + \
        "\n".join(used) + "\n" + general + "\n" + style + "\n"
    t = tmpl.replace("PROPERTY_TEXT", block).replace("WORKTREE", wt)
    open('/tmp/wt/task_%s%s.txt' % (pid, rnd), 'w').write(t)
print("ok")
