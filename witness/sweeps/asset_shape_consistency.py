"""Dynamic sweep (triage aid, not a check): shape consistency of asset-level problems over option combinations."""
import sys, os, warnings, itertools, traceback, io, contextlib
warnings.filterwarnings('ignore')
sys.path.insert(0, os.environ.get('EAO_REPO','/repo'))
import numpy as np, pandas as pd, datetime as dt
import eaopack as eao
A=eao.assets
n1,n2,n3 = A.Node('n1'),A.Node('n2'),A.Node('n3')
tg = A.Timegrid(dt.date(2021,1,1), dt.date(2021,1,3), freq='h')
pr = {'p': np.sin(np.arange(tg.T))*10+20, 'q': np.ones(tg.T)}
def check(name, make):
    buf = io.StringIO()
    try:
        with contextlib.redirect_stdout(buf):
            a = make(); op = a.setup_optim_problem(pr, tg)
        n = len(op.c); ok = (len(op.l)==n and len(op.u)==n)
        msg = []
        if not ok: msg.append(f'c/l/u {len(op.c)}/{len(op.l)}/{len(op.u)}')
        if op.A is not None:
            if op.A.shape[1] != n: msg.append(f'A cols {op.A.shape[1]} vs {n}')
            if not (op.A.shape[0] == len(op.b) == len(op.cType)): msg.append(f'rows A/b/cType {op.A.shape[0]}/{len(op.b)}/{len(op.cType)}')
        if len(op.mapping):
            mx = op.mapping.index.max(); nu = op.mapping.index.nunique()
            if mx != n-1 or nu != n: msg.append(f'labels max {mx} distinct {nu} vs n {n}')
        if np.any(op.l > op.u): msg.append('l>u')
        with contextlib.redirect_stdout(buf):
            co = make().setup_optim_problem(pr, tg, costs_only=True)
        if len(co) != n: msg.append(f'costs_only {len(co)} vs {n}')
        return (name, 'MISMATCH ' + '; '.join(msg)) if msg else None
    except Exception as e:
        tb = traceback.extract_tb(e.__traceback__)[-1]
        return (name, f'RAISES {type(e).__name__}: {str(e)[:70]} @ {tb.filename.split("/")[-1]}:{tb.lineno}')
res = []
B = [False, True]
for eff, cost, two, nos, msd, blk, freq, per in itertools.product([1.,.9],[0.,1.],B,B,[None,5.],[None,'d'],[None,'4h'],[None,'d']):
    kw = dict(size=10, cap_in=1, cap_out=1, price='p', eff_in=eff, cost_in=cost, no_simult_in_out=nos, max_store_duration=msd, block_size=blk, freq=freq, periodicity=per)
    r = check(f'Storage eff={eff} cost={cost} two={two} nosim={nos} msd={msd} blk={blk} freq={freq} per={per}', lambda: A.Storage('st', nodes=[n1,n2] if two else n1, **kw))
    if r: res.append(r)
for ec, freq, per, win in itertools.product([0.,1.],[None,'4h'],[None,'d'],B):
    kw = dict(price='p', min_cap=-1, max_cap=1, extra_costs=ec, freq=freq, periodicity=per)
    if win: kw.update(start=dt.datetime(2021,1,1,6), end=dt.datetime(2021,1,2,6))
    for cls, extra in [(A.SimpleContract,{}),(A.Contract,{'min_take':{'start':dt.datetime(2021,1,1),'end':dt.datetime(2021,1,2),'values':-3.}}),(A.MultiCommodityContract,{'factors_commodities':[1,2]})]:
        nodes = [n1,n2] if cls is A.MultiCommodityContract else n1
        r = check(f'{cls.__name__} ec={ec} freq={freq} per={per} win={win}', lambda: cls(name='c', nodes=nodes, **kw, **extra))
        if r: res.append(r)
for cst, freq, per, ext in itertools.product([0.,1.],[None,'4h'],[None,'d'],B):
    kw = dict(min_cap=0, max_cap=1, efficiency=.9, costs_const=cst, freq=freq, periodicity=per)
    if ext: kw.update(max_take={'start':dt.datetime(2021,1,1),'end':dt.datetime(2021,1,2),'values':3.})
    r = check(f'{"Ext" if ext else ""}Transport cost={cst} freq={freq} per={per}', lambda: (A.ExtendedTransport if ext else A.Transport)(name='t', nodes=[n1,n2], **kw))
    if r: res.append(r)
for heat, fuel, sc_, mrt, mdt, ramp, sr, mincap, sf in itertools.product(B,B,[0.,1.],[0,3],[0,3],[None,1.],B,[0.,1.],[0.,1.]):
    nodes = [n1] + ([n2] if heat else []) + ([n3] if fuel else [])
    kw = dict(price='p', min_cap=mincap, max_cap=5., start_costs=sc_, min_runtime=mrt, min_downtime=mdt, ramp=ramp, time_already_off=(2 if mdt else 0))
    if sr: kw.update(start_ramp_lower_bounds=[1,2], shutdown_ramp_lower_bounds=[2,1])
    if fuel: kw.update(start_fuel=sf, fuel_efficiency=.5)
    elif sf: continue
    cls = A.CHPAsset if heat else A.Plant
    r = check(f'{cls.__name__} fuel={fuel} sc={sc_} mrt={mrt} mdt={mdt} ramp={ramp} sramp={sr} mincap={mincap} sf={sf}', lambda: cls(name='chp', nodes=nodes, **kw))
    if r: res.append(r)
for base in ['storage','contract','transport','orderbook']:
    def mk():
        b = {'storage': lambda: A.Storage('s', nodes=n1, size=10, cap_in=1, cap_out=1, price='p'), 'contract': lambda: A.SimpleContract(name='s', nodes=n1, price='p', min_cap=-1, max_cap=1, extra_costs=1.),
             'transport': lambda: A.Transport(name='s', nodes=[n1,n2], min_cap=0, max_cap=1), 'orderbook': lambda: A.OrderBook(name='s', nodes=n1, orders={'start':[pd.Timestamp(2021,1,1,2)],'end':[pd.Timestamp(2021,1,1,4)],'capa':[1.],'price':[3.]})}[base]()
        return A.ScaledAsset(name='sc', base_asset=b, max_scale=3, fix_costs=1.)
    r = check(f'Scaled({base})', mk)
    if r: res.append(r)
import collections
groups = collections.defaultdict(list)
for name, m in res: groups[m.split(' @')[0][:90]].append(name)
print('cases with findings:', len(res))
for m, names in sorted(groups.items(), key=lambda kv: -len(kv[1])):
    print(f'[{len(names):4d}] {m}\n        e.g. {names[0]}')
