"""Triage aid: C06 — admitted on/off patterns of a Plant vs an independent reference (all 2^T patterns, T=6)."""
import sys, os, warnings, io, contextlib, itertools, traceback
warnings.filterwarnings('ignore')
sys.path.insert(0, os.environ.get('EAO_REPO','/repo'))
import numpy as np, pandas as pd, datetime as dt
import eaopack as eao
A=eao.assets
n1 = A.Node('n1')
T=6
tg = A.Timegrid(dt.datetime(2021,1,1), dt.datetime(2021,1,1,T), freq='h'); pr={'z':np.zeros(T)}
def reference(pat, mrt, mdt, r, o):
    BIG=50
    hist = [0]*BIG + [1]*r if r>0 else ([1]*BIG + [0]*o if o>0 else [0]*BIG)
    line = hist + list(pat); h = len(hist)
    # runs
    k=0; ok=True
    while k < len(line):
        j=k
        while j+1 < len(line) and line[j+1]==line[k]: j+=1
        length = j-k+1; cut = (j == len(line)-1); starts_before_all = (k==0)
        if j >= h-1 and not cut and not starts_before_all:   # the end of the run is a decision taken in the horizon
            if line[k]==1 and length < mrt: ok=False
            if line[k]==0 and length < mdt: ok=False
        k=j+1
    return ok
buf = io.StringIO()
total=0; mism=[]
for mrt, mdt in itertools.product([0,2,3],[0,2,3]):
    inits = [(0,0)] if mdt<=1 else []
    inits += [(1,0),(2,0),(0,1),(0,2)]
    for r,o in inits:
        try:
            with contextlib.redirect_stdout(buf):
                pl = A.Plant(name='pl', nodes=[n1], price='z', min_cap=1, max_cap=2, min_runtime=mrt, min_downtime=mdt, time_already_running=r, time_already_off=o, start_costs=0.)
                mk = A.SimpleContract(name='m', nodes=n1, price='z', min_cap=-10, max_cap=10)
                pf = eao.portfolio.Portfolio([pl, mk]); op0 = pf.setup_optim_problem(pr, tg)
            on_idx = op0.mapping.index[(op0.mapping.var_name=='bool_on')].unique()
            if len(on_idx)!=T: print('no on variables for', mrt,mdt,r,o); continue
            l0,u0 = op0.l.copy(), op0.u.copy()
            for pat in itertools.product([0,1], repeat=T):
                op0.l = l0.copy(); op0.u = u0.copy()
                # respect initial-state bounds: if pattern contradicts bounds -> infeasible by construction
                contradiction = any((p < l0[i]-1e-9) or (p > u0[i]+1e-9) for p,i in zip(pat,on_idx))
                if contradiction: feas=False
                else:
                    for p,i in zip(pat,on_idx): op0.l[i]=p; op0.u[i]=p
                    with contextlib.redirect_stdout(buf): res = op0.optimize()
                    feas = not isinstance(res,str)
                ref = reference(pat, mrt, mdt, r, o); total+=1
                if feas != ref: mism.append((mrt,mdt,r,o,''.join(map(str,pat)), 'EAO admits' if feas else 'EAO excludes'))
        except Exception as e:
            tb = traceback.extract_tb(e.__traceback__)[-1]; print('RAISES', mrt,mdt,r,o, type(e).__name__, str(e)[:80], tb.lineno)
print('patterns checked', total, 'mismatches', len(mism))
import collections
g=collections.Counter((m[0],m[1],m[2],m[3],m[5]) for m in mism)
for k,v in sorted(g.items()): 
    ex=[m[4] for m in mism if (m[0],m[1],m[2],m[3],m[5])==k][:4]
    print(f'  min_runtime={k[0]} min_downtime={k[1]} already_running={k[2]} already_off={k[3]}: {k[4]} {v} patterns the reference does not, e.g. {ex}')
