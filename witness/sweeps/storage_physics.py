"""Triage aid: C05 storage physics on random storages (patched or pinned tree)."""
import sys, os, warnings, io, contextlib, traceback, random
warnings.filterwarnings('ignore')
sys.path.insert(0, os.environ.get('EAO_REPO','/repo'))
import numpy as np, pandas as pd, datetime as dt
import eaopack as eao
A=eao.assets
rng = random.Random(7)
n1,n2 = A.Node('n1'),A.Node('n2')
issues = []
for it in range(40):
    days = rng.choice([1,2,3]); freq = rng.choice(['h','2h'])
    tg = A.Timegrid(dt.date(2021,1,1), dt.date(2021,1,1)+dt.timedelta(days=days), freq=freq); T=tg.T
    pr = {'p': np.round(np.sin(np.arange(T)/2.)*10+20+np.array([rng.random()*3 for _ in range(T)]),3), 'q': np.round(np.cos(np.arange(T)/3.)*8+18,3)}
    two = rng.random()<.3
    kw = dict(size=rng.choice([4,10]), cap_in=rng.choice([1,2]), cap_out=rng.choice([1,3]), eff_in=rng.choice([1.,.9,.8]), inflow=rng.choice([0.,.1,.3]), cost_in=rng.choice([0.,.2]), cost_out=rng.choice([0.,.1]), cost_store=rng.choice([0.,.02]),
              no_simult_in_out=rng.random()<.3, max_store_duration=rng.choice([None,None,4.]), block_size=rng.choice([None,None,'d']))
    kw['start_level'] = rng.choice([0., 1., kw['size']/2]); kw['end_level'] = kw['start_level'] if kw['block_size'] else rng.choice([kw['start_level'], min(kw['size'], kw['start_level']+1)])
    if rng.random()<.3: kw.update(start=dt.datetime(2021,1,1,4), end=dt.datetime(2021,1,1,20)); kw['block_size']=None
    st = A.Storage('st', nodes=[n1,n2] if two else n1, **kw)
    assets = [A.SimpleContract(name='m1', nodes=n1, price='p', min_cap=-20, max_cap=20), A.SimpleContract(name='m2', nodes=n2, price='q', min_cap=-20, max_cap=20), A.Transport(name='t', nodes=[n1,n2], min_cap=0, max_cap=1), st]
    tag = f'{it} {kw} two={two} T={T}'
    try:
        with contextlib.redirect_stdout(io.StringIO()):
            pf = eao.portfolio.Portfolio(assets); op = pf.setup_optim_problem(pr, tg); res = op.optimize()
        if isinstance(res,str): issues.append((tag,'not solved '+res)); continue
        with contextlib.redirect_stdout(io.StringIO()): out = eao.io.extract_output(pf, op, res, pr)
        m = op.mapping[(op.mapping.asset=='st') & (op.mapping.type=='d')]; m = m[~m.index.duplicated()]
        # physical level per step in asset window
        I = np.unique(m.time_step.values); flow = np.zeros(T)
        for i, r in m.iterrows():
            xi = res.x[i]; flow[r.time_step] += max(0,-xi)*kw['eff_in'] + min(0,-xi)
            lim_in, lim_out = kw['cap_in']*tg.dt[r.time_step], kw['cap_out']*tg.dt[r.time_step]
            if xi < -lim_in-1e-6 or xi > lim_out+1e-6: issues.append((tag, f'rate limit violated x={xi}'))
        inflow = np.zeros(T); inflow[I] = kw['inflow']*tg.dt[I]
        if kw['block_size'] is None:
            lvl = kw['start_level'] + np.cumsum(flow+inflow)
            lw = lvl[I]
            if lw.min() < -1e-5 or lw.max() > kw['size']+1e-5: issues.append((tag, f'level out of [0,size]: min {lw.min():.4f} max {lw.max():.4f}'))
            if abs(lw[-1]-kw['end_level']) > 1e-5: issues.append((tag, f'end level {lw[-1]:.4f} != {kw["end_level"]}'))
            rep = out['internal_variables']['st_fill_level'].values.astype(float)
            if np.abs(rep[I]-lw).max() > 1e-5: issues.append((tag, f'reported fill level differs from physical by {np.abs(rep[I]-lw).max():.4f}'))
            if kw['max_store_duration'] is not None:
                nz = lw > 1e-6; run = 0; worst = 0
                for k,t in enumerate(I):
                    run = run + tg.dt[t] if nz[k] else 0; worst = max(worst, run)
                if worst > kw['max_store_duration'] + 1e-6 + tg.dt[0]: issues.append((tag, f'holding duration {worst} > {kw["max_store_duration"]}'))
        if kw['no_simult_in_out']:
            byt = {}
            for i, r in m.iterrows(): byt.setdefault(r.time_step, []).append(res.x[i])
            if any(min(v) < -1e-6 and max(v) > 1e-6 for v in byt.values()): issues.append((tag, 'simultaneous charge and discharge'))
    except Exception as e:
        tb = traceback.extract_tb(e.__traceback__)[-1]; issues.append((tag, f'RAISES {type(e).__name__}: {str(e)[:70]} @ {tb.filename.split("/")[-1]}:{tb.lineno}'))
print('storages:', it+1, 'issues:', len(issues))
import collections
g = collections.defaultdict(list)
for t,m in issues: g[m.split(':')[0][:50]].append((t,m))
for k,v in sorted(g.items(), key=lambda kv:-len(kv[1])): print(f'[{len(v):3d}] {v[0][1]}\n      e.g. {v[0][0][:230]}')
