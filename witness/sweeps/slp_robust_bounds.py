"""Triage aid: C17 — SLP value vs mean of per-scenario optima; identical scenarios reproduce the deterministic optimum; robust bounds."""
import sys, os, warnings, io, contextlib, traceback, random
warnings.filterwarnings('ignore')
sys.path.insert(0, os.environ.get('EAO_REPO','/repo'))
import numpy as np, pandas as pd, datetime as dt
import eaopack as eao
A=eao.assets
rng = random.Random(3)
issues=[]
for it in range(12):
    n1,n2 = A.Node('n1'),A.Node('n2')
    tg = A.Timegrid(dt.date(2021,1,1), dt.date(2021,1,3), freq='2h'); T=tg.T; fut = dt.datetime(2021,1,1,rng.choice([6,12,18]))
    nfut = (tg.timepoints >= pd.Timestamp(fut)).sum()
    base = np.round(np.sin(np.arange(T)/2.)*10+20,3)
    def scen(k):
        p = base.copy(); p[-nfut:] += np.array([rng.uniform(-8,8) for _ in range(nfut)]) if k>0 else 0; return {'p': np.round(p,3), 'q': np.round(base[::-1].copy(),3)}
    kinds = rng.sample(['storage','transport','contract_take','multi','eff_storage2'], k=2)
    def build():
        assets=[A.SimpleContract(name='m1', nodes=n1, price='p', min_cap=-5, max_cap=5), A.SimpleContract(name='m2', nodes=n2, price='q', min_cap=-5, max_cap=5, extra_costs=.2)]
        if 'storage' in kinds: assets.append(A.Storage('st', nodes=n1, size=6, cap_in=1, cap_out=1))
        if 'eff_storage2' in kinds: assets.append(A.Storage('st2', nodes=[n1,n2], size=4, cap_in=1, cap_out=1, eff_in=.9))
        if 'transport' in kinds: assets.append(A.Transport(name='tr', nodes=[n1,n2], min_cap=0, max_cap=2, efficiency=.95))
        if 'contract_take' in kinds: assets.append(A.Contract(name='ct', nodes=n1, price='q', min_cap=-2, max_cap=0, min_take={'start':dt.datetime(2021,1,1),'end':dt.datetime(2021,1,3),'values':-20.}))
        if 'multi' in kinds: assets.append(A.MultiCommodityContract(name='mc', nodes=[n1,n2], price='q', min_cap=0, max_cap=1, factors_commodities=[1,.5]))
        return eao.portfolio.Portfolio(assets)
    S = [scen(k) for k in range(3)]
    tag = f'{it} {sorted(kinds)} future from {fut.hour}h'
    try:
        with contextlib.redirect_stdout(io.StringIO()):
            v = [build().setup_optim_problem(s, tg).optimize().value for s in S]
            pf = build(); op = pf.setup_optim_problem(S[0], tg); slp = eao.stoch_lin_prog.make_slp(op, pf, tg, fut, samples=S[1:]); r = slp.optimize()
            pf = build(); op = pf.setup_optim_problem(S[0], tg); slp_same = eao.stoch_lin_prog.make_slp(op, pf, tg, fut, samples=[S[0],S[0]]); r_same = slp_same.optimize()
            pf = build(); op = pf.setup_optim_problem(S[0], tg); cs = pf.create_cost_samples(S, tg); rob = op.optimize(target='robust', samples=cs)
        if isinstance(r,str): issues.append((tag,'slp not solved')); continue
        if r.value > np.mean(v) + 1e-4*max(1,abs(np.mean(v))): issues.append((tag, f'SLP {r.value:.4f} > mean of scenario optima {np.mean(v):.4f}'))
        if abs(r_same.value - v[0]) > 1e-4*max(1,abs(v[0])): issues.append((tag, f'identical scenarios: SLP {r_same.value:.4f} != deterministic {v[0]:.4f}'))
        worst = min(-(c*rob.x).sum() for c in cs)
        if worst > min(v) + 1e-4*max(1,abs(min(v))): issues.append((tag, f'robust worst case {worst:.4f} > smallest scenario optimum {min(v):.4f}'))
    except Exception as e:
        tb = traceback.extract_tb(e.__traceback__)[-1]; issues.append((tag, f'RAISES {type(e).__name__}: {str(e)[:80]} @ {tb.filename.split("/")[-1]}:{tb.lineno}'))
print('cases', it+1, 'issues', len(issues))
for t,m in issues: print('  ', m, '|', t)
