"""Triage aid: C08 inertness of out-of-horizon elements, per class (patched or pinned tree)."""
import sys, os, warnings, io, contextlib, traceback
warnings.filterwarnings('ignore')
sys.path.insert(0, os.environ.get('EAO_REPO','/repo'))
import numpy as np, pandas as pd, datetime as dt
import eaopack as eao
A=eao.assets
n1,n2,n3 = A.Node('n1'),A.Node('n2'),A.Node('n3')
tg = A.Timegrid(dt.date(2021,1,1), dt.date(2021,1,3), freq='h'); T=tg.T
pr = {'p': np.round(np.sin(np.arange(T)/3.)*10+20,3), 'q': np.round(np.cos(np.arange(T)/5.)*5+15,3), 'z': np.zeros(T)}
W = dict(start=dt.datetime(2022,1,1), end=dt.datetime(2022,2,1))
def base(): return [A.SimpleContract(name='m1', nodes=n1, price='p', min_cap=-20, max_cap=20), A.SimpleContract(name='m2', nodes=n2, price='q', min_cap=-20, max_cap=20, extra_costs=.5), A.SimpleContract(name='m3', nodes=n3, price='q', min_cap=-20, max_cap=20), A.Transport(name='t0', nodes=[n1,n2], min_cap=0, max_cap=3, efficiency=.9)]
extra = {
 'SimpleContract': lambda: A.SimpleContract(name='x', nodes=n1, price='z', min_cap=-5, max_cap=5, extra_costs=.1, **W),
 'Contract+take': lambda: A.Contract(name='x', nodes=n1, price='z', min_cap=-5, max_cap=5, min_take={'start':dt.datetime(2022,1,1),'end':dt.datetime(2022,1,5),'values':-3.}, **W),
 'Contract in-horizon, take outside': lambda: A.Contract(name='x', nodes=n1, price='p', min_cap=-5, max_cap=5, extra_costs=100., min_take={'start':dt.datetime(2022,1,1),'end':dt.datetime(2022,1,5),'values':-3.}),
 'Storage': lambda: A.Storage('x', nodes=n1, size=10, cap_in=1, cap_out=1, **W),
 'Storage MIP': lambda: A.Storage('x', nodes=n1, size=10, cap_in=1, cap_out=1, eff_in=.9, no_simult_in_out=True, **W),
 'Transport': lambda: A.Transport(name='x', nodes=[n1,n3], min_cap=0, max_cap=5, **W),
 'ExtendedTransport': lambda: A.ExtendedTransport(name='x', nodes=[n1,n3], min_cap=0, max_cap=5, max_take={'start':dt.datetime(2022,1,1),'end':dt.datetime(2022,1,5),'values':3.}, **W),
 'MultiCommodity': lambda: A.MultiCommodityContract(name='x', nodes=[n1,n3], price='z', min_cap=0, max_cap=5, **W),
 'Plant': lambda: A.Plant(name='x', nodes=[n1], price='z', min_cap=1, max_cap=5, start_costs=1., **W),
 'CHP fuel': lambda: A.CHPAsset(name='x', nodes=[n1,n2,n3], price='z', min_cap=1, max_cap=5, start_costs=1., fuel_efficiency=.5, **W),
 'min load': lambda: A.CHPAsset_with_min_load_costs(name='x', nodes=[n1,n2], price='z', min_cap=1, max_cap=5, min_load_threshhold=2., min_load_costs=1., **W),
 'Scaled(storage)': lambda: A.ScaledAsset(name='x', base_asset=A.Storage('xb', nodes=n1, size=10, cap_in=1, cap_out=1, **W), max_scale=3, fix_costs=1.),
 'Scaled(contract)': lambda: A.ScaledAsset(name='x', base_asset=A.SimpleContract(name='xb', nodes=n1, price='z', min_cap=-5, max_cap=5, **W), max_scale=3, fix_costs=0.),
 'OrderBook all outside': lambda: A.OrderBook(name='x', nodes=n1, orders={'start':[pd.Timestamp(2022,1,1)], 'end':[pd.Timestamp(2022,1,2)], 'capa':[5.], 'price':[-100.]}),
 'Structured': lambda: eao.portfolio.StructuredAsset(name='x', nodes=[n1], portfolio=eao.portfolio.Portfolio([A.SimpleContract(name='xi', nodes=n1, price='z', min_cap=-5, max_cap=5, **W)])),
 'periodic contract': lambda: A.SimpleContract(name='x', nodes=n1, price='z', min_cap=-5, max_cap=5, periodicity='d', **W),
 'coarse contract': lambda: A.SimpleContract(name='x', nodes=n1, price='z', min_cap=-5, max_cap=5, freq='4h', **W),
}
buf = io.StringIO()
with contextlib.redirect_stdout(buf): v0 = eao.portfolio.Portfolio(base()).setup_optim_problem(pr,tg).optimize().value
print('base value', round(v0,4))
for k, mk in extra.items():
    try:
        with contextlib.redirect_stdout(buf):
            pf = eao.portfolio.Portfolio(base()+[mk()]); op = pf.setup_optim_problem(pr,tg); res = op.optimize(); out = eao.io.extract_output(pf, op, res, pr)
        v = res if isinstance(res,str) else round(res.value,4)
        print(f'{k:36s} {v}' + ('' if (not isinstance(res,str) and abs(res.value-v0)<1e-4) else '   <== differs'))
    except Exception as e:
        tb = traceback.extract_tb(e.__traceback__)[-1]; print(f'{k:36s} RAISES {type(e).__name__}: {str(e)[:70]} @ {tb.filename.split("/")[-1]}:{tb.lineno}')
