"""Portfolio-level dynamic sweep (triage aid only): invariants of C01, C04, C09, C11, C14, C15 on random portfolios."""
import sys, os, warnings, traceback, io, contextlib, random, copy
warnings.filterwarnings('ignore')
sys.path.insert(0, os.environ.get('EAO_REPO','/repo'))
import numpy as np, pandas as pd, datetime as dt
import eaopack as eao
from eaopack import serialization as ser
A=eao.assets
rng = random.Random(int(os.environ.get('SEED','1')))
def mk_portfolio(names=None, tz=None):
    nn = names or {'n1':'n1','n2':'n2','n3':'n3'}
    N = {k:A.Node(v) for k,v in nn.items()}
    tg = A.Timegrid(dt.date(2021,1,1), dt.date(2021,1,1)+dt.timedelta(days=rng.choice([1,2,3])), freq=rng.choice(['h','2h','4h']), timezone=tz)
    T = tg.T
    pr = {'p': np.round(np.sin(np.arange(T)/3.)*10+20 + np.array([rng.random() for _ in range(T)]),3), 'q': np.round(np.cos(np.arange(T)/5.)*5+15,3), 'z': np.zeros(T)}
    assets = []
    def nm(s): return (names or {}).get(s, s)
    # always a market at each node so that problems are feasible
    for k in ['n1','n2','n3']:
        assets.append(A.SimpleContract(name=nm('mkt_'+k), nodes=N[k], price=rng.choice(['p','q']), min_cap=-20, max_cap=20, extra_costs=rng.choice([0., .5])))
    kinds = rng.sample(['storage','storage2','transport','exttransport','contract','multi','plant','chp','orderbook','scaled','struct','windowed'], k=rng.choice([2,3,4,5]))
    for kd in kinds:
        if kd=='storage': assets.append(A.Storage(nm('st'), nodes=N['n1'], size=rng.choice([5,10]), cap_in=2, cap_out=2, start_level=1, end_level=1, eff_in=rng.choice([1.,.9]), cost_in=rng.choice([0.,.1]), inflow=rng.choice([0.,.1]), cost_store=rng.choice([0.,.01])))
        if kd=='storage2': assets.append(A.Storage(nm('st2'), nodes=[N['n2'],N['n3']], size=8, cap_in=1, cap_out=3, eff_in=.8, wacc=rng.choice([0.,.1])))
        if kd=='transport': assets.append(A.Transport(name=nm('tr'), nodes=[N['n1'],N['n2']], min_cap=0, max_cap=rng.choice([1,3]), efficiency=rng.choice([1.,.9]), costs_const=rng.choice([0.,.2])))
        if kd=='exttransport': assets.append(A.ExtendedTransport(name=nm('etr'), nodes=[N['n2'],N['n3']], min_cap=0, max_cap=2, efficiency=.95, max_take={'start':dt.datetime(2021,1,1),'end':dt.datetime(2021,1,2),'values':10.}))
        if kd=='contract': assets.append(A.Contract(name=nm('ct'), nodes=N['n3'], price='q', min_cap=-3, max_cap=3, extra_costs=.3, min_take={'start':dt.datetime(2021,1,1,3),'end':dt.datetime(2021,1,1,20),'values':-5.}))
        if kd=='multi': assets.append(A.MultiCommodityContract(name=nm('mc'), nodes=[N['n1'],N['n3']], price='z', min_cap=0, max_cap=2, factors_commodities=[1,-.5]))
        if kd=='plant': assets.append(A.Plant(name=nm('pl'), nodes=[N['n1'],N['n2']], price='z', min_cap=1, max_cap=4, start_costs=2., fuel_efficiency=.5, min_runtime=rng.choice([0,2])))
        if kd=='chp': assets.append(A.CHPAsset(name=nm('chp'), nodes=[N['n1'],N['n2'],N['n3']], price='z', min_cap=1, max_cap=4, start_costs=1., fuel_efficiency=.6, max_share_heat=1., conversion_factor_power_heat=.5))
        if kd=='orderbook': assets.append(A.OrderBook(name=nm('ob'), nodes=N['n2'], orders={'start':[pd.Timestamp(2021,1,1,2),pd.Timestamp(2021,1,1,6),pd.Timestamp(2021,2,1)], 'end':[pd.Timestamp(2021,1,1,8),pd.Timestamp(2021,1,1,12),pd.Timestamp(2021,2,2)], 'capa':[1.,-2.,1.], 'price':[10.,30.,1.]}))
        if kd=='scaled': assets.append(A.ScaledAsset(name=nm('sca'), base_asset=A.Storage(nm('sbase'), nodes=N['n3'], size=4, cap_in=1, cap_out=1), max_scale=3, fix_costs=.01))
        if kd=='struct':
            ni = A.Node(nm('inner'))
            inner = eao.portfolio.Portfolio([A.SimpleContract(name=nm('isrc'), nodes=ni, price='q', min_cap=0, max_cap=3), A.Transport(name=nm('itr'), nodes=[ni,N['n1']], min_cap=0, max_cap=2, efficiency=.9)])
            assets.append(eao.portfolio.StructuredAsset(name=nm('S'), nodes=[N['n1']], portfolio=inner))
        if kd=='windowed': assets.append(A.SimpleContract(name=nm('win'), nodes=N['n2'], price='p', min_cap=-2, max_cap=2, start=dt.datetime(2021,1,1,5), end=dt.datetime(2021,1,1,17)))
    return assets, tg, pr, kinds
def run(assets, tg, pr, split=None):
    pf = eao.portfolio.Portfolio(assets)
    op = pf.setup_split_optim_problem(pr, tg, interval_size=split) if split else pf.setup_optim_problem(pr, tg)
    res = op.optimize()
    if isinstance(res, str): return pf, op, res, None
    return pf, op, res, eao.io.extract_output(pf, op, res, pr)
problems = []
for it in range(int(os.environ.get('N','25'))):
    state = rng.getstate()
    buf = io.StringIO()
    try:
        with contextlib.redirect_stdout(buf):
            assets, tg, pr, kinds = mk_portfolio()
            pf, op, res, out = run(assets, tg, pr)
        if out is None: problems.append((it, kinds, 'not solved: '+str(res))); continue
        tag = f'{it} {sorted(kinds)} T={tg.T}'
        # C01 nodal balance per node & step
        disp = out['dispatch']
        for node in ['n1','n2','n3']:
            cols = [c for c in disp.columns if c.endswith('('+node+')')]
            imb = disp[cols].sum(axis=1).abs().max()
            if imb > 1e-5: problems.append((tag, f'C01 imbalance at {node}: {imb:.4g}'))
        # C04 value accounting
        if abs(out['DCF'].sum().sum() - res.value) > 1e-4*max(1,abs(res.value)): problems.append((tag, f'C04 DCF sum {out["DCF"].sum().sum():.4f} vs value {res.value:.4f}'))
        # C07 alignment: x feasible
        x = res.x
        if np.any(x < op.l-1e-5) or np.any(x > op.u+1e-5): problems.append((tag, 'C03 bounds violated'))
        # C11 round trip of the portfolio
        with contextlib.redirect_stdout(buf):
            pf2 = ser.load_from_json(ser.to_json(pf)); op2 = pf2.setup_optim_problem(pr, tg)
        if not (np.allclose(op2.c, op.c) and np.allclose(op2.l, op.l) and np.allclose(op2.u, op.u) and abs(op2.A - op.A).sum() < 1e-9 and np.allclose(op2.b, op.b)): problems.append((tag, 'C11 problem differs after JSON round trip'))
        # C09 permutation
        with contextlib.redirect_stdout(buf):
            perm = assets[:]; rng.shuffle(perm); _,_,res_p,out_p = run(perm, tg, pr)
        if abs(res_p.value - res.value) > 1e-4*max(1,abs(res.value)): problems.append((tag, f'C09 value changes under permutation {res.value:.4f} -> {res_p.value:.4f}'))
        else:
            for c_ in out['internal_variables'].columns:
                if c_.endswith('_charge') and not np.allclose(out['internal_variables'][c_].astype(float).abs().sum(), out_p['internal_variables'][c_].astype(float).abs().sum(), atol=1e-4):
                    pass  # alternative optima possible; skip
        # C15 fix window keeps value
        with contextlib.redirect_stdout(buf):
            I = np.zeros(tg.T, bool); I[:tg.T//3] = True
            opf = pf.setup_optim_problem(pr, tg, fix_time_window={'I': I, 'x': res.x}); resf = opf.optimize()
        if isinstance(resf, str): problems.append((tag, 'C15 fixed problem not solved: '+resf))
        elif abs(resf.value - res.value) > 1e-4*max(1,abs(res.value)): problems.append((tag, f'C15 value changes when fixing {res.value:.4f} -> {resf.value:.4f}'))
        # C14 split <= unsplit (only storages couple) ; equality if no storage
        with contextlib.redirect_stdout(buf):
            _, ops, ress, outs = run(assets, tg, pr, split='d')
        if outs is not None:
            coupled = any(k in kinds for k in ['storage','storage2','scaled','contract','exttransport','plant','chp','orderbook'])
            if ress.value > res.value + 1e-4*max(1,abs(res.value)) and not any(k in kinds for k in ['contract','exttransport','plant','chp']): problems.append((tag, f'C14 split {ress.value:.4f} > unsplit {res.value:.4f}'))
            if not coupled and abs(ress.value - res.value) > 1e-4*max(1,abs(res.value)): problems.append((tag, f'C14 split {ress.value:.4f} != unsplit {res.value:.4f} (uncoupled)'))
            d2 = outs['dispatch']
            for node in ['n1','n2','n3']:
                cols = [c for c in d2.columns if c.endswith('('+node+')')]
                imb = d2[cols].sum(axis=1).abs().max()
                if imb > 1e-5: problems.append((tag, f'C14/C01 split imbalance at {node}: {imb:.4g}'))
            if abs(outs['DCF'].sum().sum() - ress.value) > 1e-4*max(1,abs(ress.value)): problems.append((tag, f'C14/C04 split DCF sum vs value'))
    except Exception as e:
        tb = traceback.extract_tb(e.__traceback__)[-1]
        problems.append((f'{it} {sorted(kinds) if "kinds" in dir() else ""}', f'RAISES {type(e).__name__}: {str(e)[:80]} @ {tb.filename.split("/")[-1]}:{tb.lineno}'))
print('portfolios:', it+1, 'problems:', len(problems))
import collections
g = collections.defaultdict(list)
for t, m in problems: g[m.split(':')[0][:60] if m.startswith(('C0','C1')) else m[:90]].append((t,m))
for k, v in sorted(g.items(), key=lambda kv:-len(kv[1])):
    print(f'[{len(v):3d}] {v[0][1]}\n       e.g. {v[0][0]}')
