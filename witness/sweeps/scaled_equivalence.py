"""Triage aid: C16 — scaled asset at fixed scale s vs base asset with capacities * s/norm, minus fix costs."""
import sys, os, warnings, io, contextlib, traceback
warnings.filterwarnings('ignore')
sys.path.insert(0, os.environ.get('EAO_REPO','/repo'))
import numpy as np, pandas as pd, datetime as dt
import eaopack as eao
A=eao.assets
n1,n2 = A.Node('n1'),A.Node('n2')
tg = A.Timegrid(dt.date(2021,1,1), dt.date(2021,1,3), freq='h'); T=tg.T
pr = {'p': np.round(np.sin(np.arange(T)/3.)*10+20,3), 'q': np.round(np.cos(np.arange(T)/5.)*5+15,3), 'z': np.zeros(T)}
def mk(kind, f):   # f = capacity factor
    if kind=='storage': return A.Storage('b', nodes=n1, size=10*f, cap_in=2*f, cap_out=2*f, eff_in=.9, start_level=2*f, end_level=2*f)
    if kind=='storage inflow': return A.Storage('b', nodes=n1, size=10*f, cap_in=2*f, cap_out=2*f, inflow=.2*f)
    if kind=='contract 2var': return A.SimpleContract(name='b', nodes=n1, price='q', min_cap=-3*f, max_cap=3*f, extra_costs=.5)
    if kind=='contract take': return A.Contract(name='b', nodes=n1, price='z', min_cap=-3*f, max_cap=0, min_take={'start':dt.datetime(2021,1,1),'end':dt.datetime(2021,1,2),'values':-20.*f})
    if kind=='transport': return A.Transport(name='b', nodes=[n1,n2], min_cap=0, max_cap=3*f, efficiency=.9, costs_const=.1)
    if kind=='plant min load': return A.Plant(name='b', nodes=[n1], price='z', min_cap=2*f, max_cap=4*f, start_costs=1.)
    if kind=='storage no_simult': return A.Storage('b', nodes=n1, size=10*f, cap_in=2*f, cap_out=2*f, eff_in=.9, no_simult_in_out=True)
def base(): return [A.SimpleContract(name='m1', nodes=n1, price='p', min_cap=-20, max_cap=20), A.SimpleContract(name='m2', nodes=n2, price='q', min_cap=-20, max_cap=20)]
buf = io.StringIO()
for kind in ['storage','storage inflow','contract 2var','contract take','transport','plant min load','storage no_simult']:
    for s, S in [(0.5, 1.), (3., 2.)]:
        try:
            with contextlib.redirect_stdout(buf):
                fc = .02
                sca = A.ScaledAsset(name='sc', base_asset=mk(kind, 1.), min_scale=s, max_scale=s, norm_scale=S, fix_costs=fc)
                v1 = eao.portfolio.Portfolio(base()+[sca]).setup_optim_problem(pr,tg).optimize()
                v2 = eao.portfolio.Portfolio(base()+[mk(kind, s/S)]).setup_optim_problem(pr,tg).optimize()
            if isinstance(v1,str) or isinstance(v2,str): print(f'{kind:20s} s={s} S={S}: scaled {v1 if isinstance(v1,str) else round(v1.value,3)} vs resized {v2 if isinstance(v2,str) else round(v2.value,3)}   <== differs'); continue
            exp = v2.value - s*fc*tg.dt.sum()
            print(f'{kind:20s} s={s} S={S}: scaled {v1.value:10.4f}  resized base - fix costs {exp:10.4f}' + ('' if abs(v1.value-exp) < 1e-3*max(1,abs(exp)) else '   <== differs'))
        except Exception as e:
            tb = traceback.extract_tb(e.__traceback__)[-1]; print(f'{kind:20s} RAISES {type(e).__name__}: {str(e)[:70]} @ {tb.filename.split("/")[-1]}:{tb.lineno}')
