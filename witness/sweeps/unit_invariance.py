"""Triage aid: C12 unit invariance on representative assets (rates x24, durations /24 when unit h -> d)."""
import sys, os, warnings, io, contextlib, traceback
warnings.filterwarnings('ignore')
sys.path.insert(0, os.environ.get('EAO_REPO','/repo'))
import numpy as np, pandas as pd, datetime as dt
import eaopack as eao
A=eao.assets
def build(unit, which):
    k = 1. if unit=='h' else 24.       # rate factor
    n1,n2,n3 = A.Node('n1'),A.Node('n2'),A.Node('n3')
    tg = A.Timegrid(dt.date(2021,1,1), dt.date(2021,1,4), freq='h', main_time_unit=unit)
    T=tg.T; pr = {'p': np.round(np.sin(np.arange(T)/3.)*10+20,3), 'q': np.round(np.cos(np.arange(T)/5.)*5+15,3), 'z': np.zeros(T)}
    assets = [A.SimpleContract(name='m1', nodes=n1, price='p', min_cap=-20*k, max_cap=20*k, wacc=.2), A.SimpleContract(name='m2', nodes=n2, price='q', min_cap=-20*k, max_cap=20*k, extra_costs=.5), A.SimpleContract(name='m3', nodes=n3, price='q', min_cap=-20*k, max_cap=20*k)]
    if which=='storage': assets.append(A.Storage('st', nodes=n1, size=10, cap_in=2*k, cap_out=2*k, inflow=.1*k, cost_store=.01*k, eff_in=.9, wacc=.2))
    if which=='storage_mip': assets.append(A.Storage('st', nodes=n1, size=10, cap_in=2*k, cap_out=2*k, eff_in=.9, max_store_duration=6/k, no_simult_in_out=True))
    if which=='transport': assets.append(A.Transport(name='tr', nodes=[n1,n2], min_cap=0, max_cap=3*k, efficiency=.9, costs_const=.2))
    if which=='contract_take': assets.append(A.Contract(name='ct', nodes=n3, price='z', min_cap=-3*k, max_cap=0, min_take={'start':dt.datetime(2021,1,1,3),'end':dt.datetime(2021,1,2,20),'values':-25.}))
    if which=='plant': assets.append(A.Plant(name='pl', nodes=[n1,n2], price='z', min_cap=1*k, max_cap=4*k, start_costs=2., fuel_efficiency=.5, min_runtime=3/k, ramp=1.*k, running_costs=.3*k, consumption_if_on=.2*k))
    if which=='plant_ramps': assets.append(A.Plant(name='pl', nodes=[n1], price='z', min_cap=2*k, max_cap=4*k, start_costs=2., min_runtime=2/k, start_ramp_lower_bounds=[.5*k, 1*k], shutdown_ramp_lower_bounds=[1*k,.5*k], ramp_freq='h'))
    if which=='chp': assets.append(A.CHPAsset(name='chp', nodes=[n1,n2,n3], price='z', min_cap=1*k, max_cap=4*k, start_costs=1., fuel_efficiency=.6, max_share_heat=1., conversion_factor_power_heat=.5, min_downtime=3/k, time_already_off=1/k, last_dispatch=0.))
    if which=='minload': assets.append(A.CHPAsset_with_min_load_costs(name='ml', nodes=[n1,n2], price='z', min_cap=1*k, max_cap=5*k, min_load_threshhold=2.*k, min_load_costs=1.*k))
    if which=='orderbook': assets.append(A.OrderBook(name='ob', nodes=n2, orders={'start':[pd.Timestamp(2021,1,1,2),pd.Timestamp(2021,1,1,6)], 'end':[pd.Timestamp(2021,1,1,8),pd.Timestamp(2021,1,1,12)], 'capa':[1.*k,-2.*k], 'price':[10.,30.]}, wacc=.2))
    if which=='scaled': assets.append(A.ScaledAsset(name='sca', base_asset=A.Storage('sb', nodes=n3, size=4, cap_in=1*k, cap_out=1*k), max_scale=3, fix_costs=.01*k))
    if which=='coarse': assets.append(A.SimpleContract(name='co', nodes=n1, price='q', min_cap=-2*k, max_cap=2*k, freq='4h'))
    if which=='linked':
        p1 = A.Plant(name='p1', nodes=[n1], price='z', min_cap=1*k, max_cap=3*k, start_costs=1.); p2 = A.Plant(name='p2', nodes=[n1], price='z', min_cap=1*k, max_cap=2*k, start_costs=5.)
        assets.append(eao.portfolio.LinkedAsset(eao.portfolio.Portfolio([p1,p2]), nodes=[n1], name='L', asset1_variable=(p1,'disp',n1), asset2_variable=(p2,'bool_on',None), time_back=2/k))
    return eao.portfolio.Portfolio(assets), tg, pr
for which in ['storage','storage_mip','transport','contract_take','plant','plant_ramps','chp','minload','orderbook','scaled','coarse','linked']:
    vals = []
    for unit in ['h','d']:
        buf = io.StringIO()
        try:
            with contextlib.redirect_stdout(buf):
                pf, tg, pr = build(unit, which); res = pf.setup_optim_problem(pr, tg).optimize()
            vals.append(res if isinstance(res,str) else round(res.value,4))
        except Exception as e:
            tb = traceback.extract_tb(e.__traceback__)[-1]; vals.append(f'RAISES {type(e).__name__}: {str(e)[:60]} @ {tb.filename.split("/")[-1]}:{tb.lineno}')
    flag = '' if (isinstance(vals[0],float) and isinstance(vals[1],float) and abs(vals[0]-vals[1]) <= 1e-3*max(1,abs(vals[0]))) else '   <== differs'
    print(f'{which:14s} h: {vals[0]}   d: {vals[1]}{flag}')
