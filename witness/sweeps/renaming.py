"""Triage aid: C09 — renaming assets/nodes with awkward names must not change value / DCF per asset."""
import sys, os, warnings, io, contextlib, traceback, random
warnings.filterwarnings('ignore')
sys.path.insert(0, os.environ.get('EAO_REPO','/repo'))
import numpy as np, pandas as pd, datetime as dt
import eaopack as eao
A=eao.assets
tg = A.Timegrid(dt.date(2021,1,1), dt.date(2021,1,2), freq='h'); T=tg.T
pr = {'p': np.round(np.sin(np.arange(T)/3.)*10+20,3), 'q': np.round(np.cos(np.arange(T)/5.)*5+15,3), 'z': np.zeros(T)}
def build(nm):
    N = {k: A.Node(nm(k)) for k in ['n1','n2','ni']}
    inner = eao.portfolio.Portfolio([A.SimpleContract(name=nm('isrc'), nodes=N['ni'], price='q', min_cap=0, max_cap=3), A.Transport(name=nm('itr'), nodes=[N['ni'],N['n1']], min_cap=0, max_cap=2, efficiency=.9)])
    assets = [A.SimpleContract(name=nm('m1'), nodes=N['n1'], price='p', min_cap=-20, max_cap=20, extra_costs=.5),
              A.SimpleContract(name=nm('m2'), nodes=N['n2'], price='q', min_cap=-20, max_cap=20),
              A.Transport(name=nm('tr'), nodes=[N['n1'],N['n2']], min_cap=0, max_cap=3, efficiency=.9),
              A.Storage(nm('st'), nodes=N['n1'], size=5, cap_in=1, cap_out=1, eff_in=.9),
              A.Plant(name=nm('pl'), nodes=[N['n2']], price='z', min_cap=1, max_cap=3, start_costs=1.),
              eao.portfolio.StructuredAsset(name=nm('S'), nodes=[N['n1']], portfolio=inner)]
    return assets
schemes = {
 'identity': lambda k: k,
 'numeric': lambda k: {'n1':'1','n2':'11','ni':'111','isrc':'2','itr':'22','m1':'1','m2':'11','tr':'12','st':'21','pl':'112','S':'211'}[k],
 'prefixes': lambda k: {'n1':'a','n2':'aa','ni':'a_internal_a','isrc':'a','itr':'a__a','m1':'aa','m2':'aaa','tr':'a_','st':'_a','pl':'disp','S':'a_internal'}[k],
 'brackets': lambda k: {'n1':'B (C','n2':'C','ni':'x','isrc':'i','itr':'j','m1':'A','m2':'A (B','tr':'A (B (C)','st':'st_charge','pl':'pl (bool_on)','S':'index'}[k],
}
ref = None
for sname, nm in schemes.items():
    try:
        with contextlib.redirect_stdout(io.StringIO()):
            assets = build(nm); pf = eao.portfolio.Portfolio(assets); op = pf.setup_optim_problem(pr, tg); res = op.optimize(); out = eao.io.extract_output(pf, op, res, pr)
        dcf = {k: round(float(out['DCF'][nm(k)].sum()),3) for k in ['m1','m2','tr','st','pl','S']}
        ncols = out['dispatch'].shape[1]
        line = f'{sname:9s} value {res.value:10.4f}  dispatch columns {ncols}  DCF {dcf}'
        if ref is None: ref = (res.value, dcf, ncols)
        else:
            flags = []
            if abs(res.value-ref[0])>1e-4: flags.append('value')
            if any(abs(dcf[k]-ref[1][k])>1e-2 for k in dcf): flags.append('DCF (alt. optimum possible)')
            if ncols != ref[2]: flags.append('dispatch columns lost')
            line += ('   <== ' + ', '.join(flags)) if flags else ''
        print(line)
    except Exception as e:
        tb = traceback.extract_tb(e.__traceback__)[-1]; print(f'{sname:9s} RAISES {type(e).__name__}: {str(e)[:90]} @ {tb.filename.split("/")[-1]}:{tb.lineno}')
