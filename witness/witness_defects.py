"""Dynamic witnesses for the defects of DESIGN.md §7 (triage evidence only, not a check)."""
import sys, warnings, copy, io as _io, contextlib, traceback
warnings.filterwarnings('ignore')
import os; sys.path.insert(0, os.environ.get('EAO_REPO', '/repo'))
import numpy as np, pandas as pd, datetime as dt
import eaopack as eao
from eaopack import serialization as ser

A = eao.assets
N1, N2 = A.Node('n1'), A.Node('n2')

def grid(days=1, **kw):
    return A.Timegrid(dt.date(2021, 1, 1), dt.date(2021, 1, 1) + dt.timedelta(days=days), freq='h', **kw)

def sine(tg):
    return {'p': np.sin(np.arange(tg.T)) * 10 + 20, 'z': np.zeros(tg.T)}

def sc(name, node=N1, **kw):
    kw.setdefault('price', 'p'); kw.setdefault('min_cap', -10); kw.setdefault('max_cap', 10)
    return A.SimpleContract(name=name, nodes=node, **kw)

W = {}
def witness(f):
    W[f.__name__] = f
    return f

@witness
def D1():
    tg = grid(); op = eao.portfolio.Portfolio([sc('1'), sc('11', min_cap=-5, max_cap=5, extra_costs=1.)]).setup_optim_problem(sine(tg), tg)
    return f"variables={len(op.c)} distinct mapping indices={op.mapping.index.nunique()} (must be equal)"

@witness
def D2():
    tg = grid(); pr = sine(tg)
    pf = eao.portfolio.Portfolio([sc('a'), sc('b', N2, extra_costs=1.), A.Transport(name='t', nodes=[N1, N2], min_cap=0, max_cap=3, efficiency=.9)])
    res = pf.setup_optim_problem(pr, tg).optimize()
    I = np.zeros(tg.T, bool); I[:5] = True
    pf.setup_optim_problem(pr, tg, fix_time_window={'I': I, 'x': res.x})
    return 'no error'

@witness
def D2b():
    tg = grid(); pr = sine(tg)
    pf = eao.portfolio.Portfolio([sc('a'), sc('b')]); pf.set_timegrid(tg)
    res = pf.setup_optim_problem(pr).optimize()
    I = np.zeros(tg.T, bool); I[:4] = True
    pf.setup_optim_problem(pr, fix_time_window={'I': I, 'x': res.x})
    return 'no error'

@witness
def D3():
    tg = grid(); pr = sine(tg)
    def build(with_outside):
        st = [pd.Timestamp(2021, 1, 1, 2), pd.Timestamp(2022, 1, 1, 2), pd.Timestamp(2021, 1, 1, 5)]
        en = [pd.Timestamp(2021, 1, 1, 4), pd.Timestamp(2022, 1, 1, 4), pd.Timestamp(2021, 1, 1, 8)]
        ca = [1., 1., -2.]; pc = [3., 1., 50.]
        keep = [0, 1, 2] if with_outside else [0, 2]
        orders = {'start': [st[k] for k in keep], 'end': [en[k] for k in keep], 'capa': [ca[k] for k in keep], 'price': [pc[k] for k in keep]}
        return eao.portfolio.Portfolio([A.OrderBook(name='ob', nodes=N1, orders=orders), sc('a')])
    op = build(True).setup_optim_problem(pr, tg)
    first_a = op.mapping.index[op.mapping['asset'] == 'a'].min()
    v_with = op.optimize().value; v_without = build(False).setup_optim_problem(pr, tg).optimize().value
    return f"3 orders (one outside the horizon): contract's first variable is no. {first_a} (3 expected); value with the outside order {v_with:.3f}, without it {v_without:.3f}"

def _rt(obj):
    s = ser.to_json(obj); o = ser.load_from_json(s); return 'same JSON after reload' if ser.to_json(o) == s else 'JSON differs after reload'

@witness
def D4():
    st = A.Storage('st', nodes=N1, size=10, cap_in=1, cap_out=1, price='p')
    return _rt(A.ScaledAsset(name='sc', base_asset=st, max_scale=3))

@witness
def D5():
    p1 = A.Plant(name='p1', nodes=[N1], price='p', min_cap=1, max_cap=5, start_costs=1.)
    p2 = A.Plant(name='p2', nodes=[N1], price='p', min_cap=1, max_cap=5, start_costs=1.)
    pf = eao.portfolio.Portfolio([p1, p2])
    la = eao.portfolio.LinkedAsset(pf, nodes=[N1], name='L', asset1_variable=(p1, 'disp', N1), asset2_variable=(p2, 'bool_on', None))
    return _rt(la)

@witness
def D6():
    tg = grid(); pr = sine(tg)
    pl = A.Plant(name='pl', nodes=[N1], price='p', min_cap=1, max_cap=5, start_costs=1.)
    pl.setup_optim_problem(pr, tg); r1 = 'Plant after set-up: ' + _rt(pl); print('   ' + r1)
    chp = A.CHPAsset(name='chp', nodes=[N1, N2], price='p', min_cap=1, max_cap=5, start_costs=1.)
    fresh = _rt(chp); print('   CHP before set-up: ' + fresh); chp.setup_optim_problem(pr, tg)
    return r1 + '; CHP fresh: ' + fresh + '; CHP after set-up: ' + _rt(chp)

@witness
def D7():
    tgz = grid(timezone='CET')
    c = sc('c', max_cap={'start': [dt.datetime(2021, 1, 1)], 'end': [dt.datetime(2021, 1, 3)], 'values': [3.]})
    pf = eao.portfolio.Portfolio([c]); pf.set_timegrid(tgz)
    o = ser.load_from_json(ser.to_json(pf))
    print(f"   tz before={tgz.tz!r} after={o.timegrid.tz!r}")
    o.setup_optim_problem({'p': np.ones(tgz.T)})
    return 'no error'

@witness
def D8():
    tg = grid(); pr = sine(tg)
    a = sc('a', start=dt.datetime(2021, 1, 1, 0), end=dt.datetime(2021, 1, 1, 12)); b = sc('b', start=dt.datetime(2021, 1, 1, 20))
    a.set_timegrid(tg); n1 = len(a.setup_optim_problem(pr).c)
    b.set_timegrid(tg); n2 = len(a.setup_optim_problem(pr).c)
    return f"asset a: {n1} variables, after b.set_timegrid on the shared grid: {n2}"

@witness
def D9():
    d = {'start': [dt.datetime(2021, 1, 1)], 'end': [dt.datetime(2021, 1, 3)], 'values': [3.]}
    c = sc('c', max_cap=d); tgz = grid(timezone='CET'); tg = grid()
    c.setup_optim_problem({'p': np.ones(tgz.T)}, tgz)
    print('   user dict now:', {k: str(v)[:60] for k, v in d.items()})
    c.setup_optim_problem(sine(tg), tg)
    return 'no error'

@witness
def D10():
    tg = grid(2); pr = sine(tg)
    a = sc('a', start=dt.datetime(2021, 1, 1), end=dt.datetime(2021, 1, 3)); b = sc('b')
    before = len(a.setup_optim_problem(pr, tg).c)
    S = eao.portfolio.StructuredAsset(name='S', nodes=[N1], portfolio=eao.portfolio.Portfolio([a, b]), start=dt.datetime(2021, 1, 1, 6), end=dt.datetime(2021, 1, 2))
    S.setup_optim_problem(pr, tg)
    return f"inner asset stand-alone: {before} variables before, {len(a.setup_optim_problem(pr, tg).c)} after the wrapper was set up"

@witness
def D11():
    tg = A.Timegrid(dt.date(2021, 1, 4), dt.date(2021, 1, 18), freq='h')
    op = sc('c', periodicity='d', periodicity_duration='W').setup_optim_problem({'p': np.sin(np.arange(tg.T))}, tg)
    return f"variables={len(op.c)} max mapping index={op.mapping.index.max()}"

@witness
def D12():
    tg = grid(); st = A.Storage('st', nodes=N1, size=100, cap_in=1, cap_out=1, price='p', inflow=1., start_level=0, end_level=24.)
    op = st.setup_optim_problem(sine(tg), tg); res = op.optimize()
    return f"reported last levels {np.round(st.fill_level(op, res)[-3:], 2)} physical {np.round((-np.cumsum(res.x) + np.cumsum(tg.dt))[-3:], 2)}"

@witness
def D13():
    tg = grid(); pr = sine(tg)
    def assets():
        return (A.Storage('st', nodes=N1, size=10, cap_in=1, cap_out=1), sc('a'), A.Transport(name='t', nodes=[N1, N2], min_cap=0, max_cap=3, efficiency=.9), sc('b', N2))
    st, a, t, b = assets(); o1 = eao.io.optimize(eao.portfolio.Portfolio([a, t, b, st]), tg, pr)
    st, a, t, b = assets(); o2 = eao.io.optimize(eao.portfolio.Portfolio([st, a, t, b]), tg, pr)
    f = lambda o: round(float(abs(o['internal_variables']['st_charge']).sum()), 3)
    return f"sum |st_charge| with storage last={f(o1)}, storage first={f(o2)}"

@witness
def D14():
    tg = grid(2); st = A.Storage('st', nodes=N1, size=100, cap_in=5, cap_out=5, price='p', inflow=1., block_size='d')
    res = st.setup_optim_problem(sine(tg), tg).optimize()
    return res if isinstance(res, str) else 'feasible'

@witness
def D15():
    tg = grid(2); sc('c', extra_costs=1., freq='d').setup_optim_problem(sine(tg), tg); return 'no error'

@witness
def D16():
    tg = grid(2); op = A.Transport(name='c', nodes=[N1, N2], min_cap=0, max_cap=1, efficiency=.9, freq='d').setup_optim_problem(sine(tg), tg)
    return f"first four factors at node 1: {op.mapping.disp_factor.values[:4]} (expected -1/24 each)"

@witness
def D17():
    tg = grid(2); pr = sine(tg)
    op = A.Plant(name='pl', nodes=[N1], price='p', min_cap=0, max_cap=5, periodicity='d').setup_optim_problem(pr, tg)
    print(f"   Plant: variables={len(op.c)} A.shape={op.A.shape} max index={op.mapping.index.max()}")
    A.CHPAsset(name='chp', nodes=[N1, N2], price='p', min_cap=1, max_cap=5, start_costs=1., periodicity='d').setup_optim_problem(pr, tg)
    return 'no error'

@witness
def D18():
    out = []
    for mtu in ('h', 'd'):
        tg = A.Timegrid(dt.date(2021, 1, 1), dt.date(2021, 3, 1), freq='d', main_time_unit=mtu)
        pr = {'p': np.ones(tg.T) * 10, 'z': np.zeros(tg.T)}; cap = 1. if mtu == 'h' else 24.
        pf = eao.portfolio.Portfolio([sc('a', min_cap=-cap, max_cap=0, wacc=.5), sc('b', price='z', min_cap=0, max_cap=cap, wacc=.5)])
        v1 = pf.setup_optim_problem(pr, tg).optimize().value
        v2 = pf.setup_split_optim_problem(pr, tg, interval_size='W').optimize().value
        out.append(f"unit {mtu}: unsplit {v1:.1f} split {v2:.1f}")
    return '; '.join(out)

@witness
def D19():
    tg = grid(2); pr = sine(tg); out = []
    st = A.Storage('st', nodes=N1, size=10, cap_in=1, cap_out=1, price='p', eff_in=.9, no_simult_in_out=True)
    out.append(f"MIP storage full={len(st.setup_optim_problem(pr, tg).c)} costs_only={len(st.setup_optim_problem(pr, tg, costs_only=True))}")
    c = sc('c', periodicity='d')
    out.append(f"periodic full={len(c.setup_optim_problem(pr, tg).c)} costs_only={len(c.setup_optim_problem(pr, tg, costs_only=True))}")
    print('   ' + '; '.join(out))
    A.ScaledAsset(name='sc', base_asset=A.Storage('s2', nodes=N1, size=10, cap_in=1, cap_out=1, price='p'), max_scale=3).setup_optim_problem(pr, tg, costs_only=True)
    return 'no error'

@witness
def D20():
    tg = grid(2); pr = sine(tg)
    b = A.Plant(name='b', nodes=[N1], price='p', min_cap=1, max_cap=10, start=dt.datetime(2022, 1, 1), end=dt.datetime(2022, 2, 1))
    eao.portfolio.Portfolio([sc('a'), b]).setup_optim_problem(pr, tg); return 'no error'

@witness
def D21():
    tg = A.Timegrid(dt.date(2021, 1, 1), dt.datetime(2021, 1, 1, 6), freq='h')
    cf = {'start': [dt.datetime(2021, 1, 1, 0), dt.datetime(2021, 1, 1, 3)], 'end': [dt.datetime(2021, 1, 1, 3), dt.datetime(2021, 1, 1, 6)], 'values': [.2, 1.]}
    chp = A.CHPAsset(name='chp', nodes=[N1, N2], price='p', min_cap=0, max_cap=10, ramp=1., conversion_factor_power_heat=cf, max_share_heat=5.)
    pr = {'p': np.zeros(tg.T), 'pp': np.array([0, 0, 50, 0, 0, 0.]), 'ph': np.array([0, 0, 100, 100, 100, 100.])}
    pf = eao.portfolio.Portfolio([chp, sc('pw', price='pp', min_cap=-100, max_cap=100), sc('ht', N2, price='ph', min_cap=-100, max_cap=100)])
    op = pf.setup_optim_problem(pr, tg); d = eao.io.extract_output(pf, op, op.optimize(), pr)['dispatch']
    virt = d['chp (n1)'].values + np.array([.2, .2, .2, 1, 1, 1]) * d['chp (n2)'].values
    return f"virtual output {np.round(virt, 2)} step changes {np.round(np.diff(virt), 2)} with ramp 1"

@witness
def D23():
    tg = grid(2); pr = sine(tg); pf = eao.portfolio.Portfolio([sc('a'), sc('b')])
    res = pf.setup_optim_problem(pr, tg).optimize(); fw = {'I': dt.datetime(2021, 1, 1, 5), 'x': res.x}
    pf.setup_split_optim_problem(pr, tg, interval_size='d', fix_time_window=fw)
    if isinstance(fw['I'], dt.datetime): return "caller's fix_time_window['I'] is still the date"
    return f"caller's fix_time_window['I'] is now {type(fw['I']).__name__} of length {len(fw['I'])} (was a date; first interval's mask reused for all)"

@witness
def D24():
    tg = grid(2); pr = {'p': np.sin(np.arange(tg.T)) * 10 + 20, 'q': np.cos(np.arange(tg.T)) * 10 + 20}
    pf = eao.portfolio.Portfolio([sc('a'), sc('b', N2, price='q'), A.Transport(name='t', nodes=[N1, N2], min_cap=0, max_cap=3, efficiency=.9)])
    op = pf.setup_optim_problem(pr, tg); slp = eao.stoch_lin_prog.make_slp(op, pf, tg, dt.datetime(2021, 1, 2), samples=[pr, pr])
    eao.io.extract_output(pf, slp, slp.optimize(), pr); return 'no error'

@witness
def D25():
    tg1 = grid(); tg2 = A.Timegrid(dt.date(2021, 3, 1), dt.date(2021, 3, 2), freq='h')
    pf = lambda: eao.portfolio.Portfolio([sc('a', min_cap=-10, max_cap=0), sc('b', price='z', min_cap=0, max_cap=10)])
    d = pd.DataFrame({'p': np.arange(24.) + 1, 'z': np.zeros(24)})
    fresh = eao.io.optimize(pf(), tg2, d.copy())['summary'].loc['value', 'Values']
    eao.io.optimize(pf(), tg1, d)
    again = eao.io.optimize(pf(), tg2, d)['summary'].loc['value', 'Values']
    return f"value on grid 2 with fresh data {fresh:.0f}; with the same DataFrame after a call on grid 1 {again:.0f}"

@witness
def D26():
    tg = grid(); pr = sine(tg)
    st = A.Storage('st', nodes=N1, size=10, cap_in=1, cap_out=1, price='p', start=dt.datetime(2022, 1, 1), end=dt.datetime(2022, 2, 1))
    eao.portfolio.Portfolio([sc('a'), A.ScaledAsset(name='sc', base_asset=st, max_scale=3)]).setup_optim_problem(pr, tg)
    return 'no error'

@witness
def D27():
    tg = grid(); pr = sine(tg)
    p1 = A.Plant(name='p1', nodes=[N1], price='p', min_cap=1, max_cap=5, start_costs=1.)
    p2 = A.Plant(name='p2', nodes=[N1], price='p', min_cap=1, max_cap=5, start_costs=1., start=dt.datetime(2021, 1, 1), end=dt.datetime(2021, 1, 1, 6))
    la = eao.portfolio.LinkedAsset(eao.portfolio.Portfolio([p1, p2]), nodes=[N1], name='L', asset1_variable=(p1, 'disp', N1), asset2_variable=(p2, 'bool_on', None))
    la.setup_optim_problem(pr, tg)
    return f"LinkedAsset window = {tg.T} steps, loop bound self.timegrid.restricted.T = {la.timegrid.restricted.T}"

@witness
def D19b():
    tg = grid(); pr = sine(tg)
    p1 = A.Plant(name='p1', nodes=[N1], price='p', min_cap=1, max_cap=5, start_costs=1.)
    p2 = A.Plant(name='p2', nodes=[N1], price='p', min_cap=1, max_cap=5, start_costs=1.)
    la = eao.portfolio.LinkedAsset(eao.portfolio.Portfolio([p1, p2]), nodes=[N1], name='L', asset1_variable=(p1, 'disp', N1), asset2_variable=(p2, 'bool_on', None))
    la.setup_optim_problem(pr, tg, costs_only=True); return 'no error'

@witness
def D28():
    tg = A.Timegrid(dt.date(2021, 1, 1), dt.datetime(2021, 1, 1, 4), freq='h')
    pr = {'buy': np.array([1., 2, 3, 4]), 'sell': np.array([10., 10, 10, 10])}
    def parts():
        nA, nB = A.Node('A'), A.Node('B')
        return (nB, A.SimpleContract(name='src', nodes=nA, price='buy', min_cap=0, max_cap=5),
                A.Transport(name='tr', nodes=[nA, nB], min_cap=0, max_cap=3, efficiency=1.),
                A.SimpleContract(name='snk', nodes=nB, price='sell', min_cap=-10, max_cap=0))
    nB, src, tr, snk = parts(); pf = eao.portfolio.Portfolio([src, tr, snk]); op = pf.setup_optim_problem(pr, tg)
    flat = eao.io.extract_output(pf, op, op.optimize(), pr)['prices']['nodal price: B'].values
    nB, src, tr, snk = parts(); S = eao.portfolio.StructuredAsset(name='S', nodes=[nB], portfolio=eao.portfolio.Portfolio([src, tr]))
    pf = eao.portfolio.Portfolio([S, snk]); op = pf.setup_optim_problem(pr, tg)
    wrapped = eao.io.extract_output(pf, op, op.optimize(), pr)['prices']['nodal price: B'].values
    return f"nodal price at B: flat {np.round(flat, 2)}, with source+transport wrapped {np.round(wrapped, 2)}; N rows={op.cType.count('N')} records={len(op.map_nodal_restr)}"

@witness
def D29():
    tgz = grid(timezone='CET'); pr = sine(tgz)
    print('   sibling (take period with naive dates on CET grid):', len(A.Contract(name='c', nodes=N1, price='p', min_cap=-1, max_cap=1, min_take={'start': dt.datetime(2021, 1, 1, 2), 'end': dt.datetime(2021, 1, 1, 8), 'values': -2.}).setup_optim_problem(pr, tgz).c), 'variables, no error')
    orders = {'start': [pd.Timestamp(2021, 1, 1, 2)], 'end': [pd.Timestamp(2021, 1, 1, 4)], 'capa': [1.], 'price': [3.]}
    A.OrderBook(name='ob', nodes=N1, orders=orders).setup_optim_problem(pr, tgz)
    return 'no error'

@witness
def D30():
    tg = A.Timegrid(dt.date(2021, 3, 22), dt.date(2021, 4, 5), freq='d', main_time_unit='h', timezone='CET')
    op = sc('c', min_cap=-1, max_cap=1, freq='7d').setup_optim_problem({'p': np.ones(tg.T)}, tg)
    return f"daily CET grid over the DST switch (one 23 h day), weekly asset: weights per week sum to {np.round(op.mapping.groupby(level=0).disp_factor.sum().values, 5)} (1 expected)"

@witness
def D31():
    tg = grid(); c = A.Contract(name='c', nodes=N1, price='p', min_cap=-1, max_cap=1, periodicity='d', min_take={'start': dt.datetime(2021, 1, 1), 'end': dt.datetime(2021, 1, 2), 'values': -3.})
    op = c.setup_optim_problem({'p': np.ones(tg.T)}, tg)
    return f"no error, {len(op.c)} variables"

@witness
def D32():
    tg = grid(2); pr = sine(tg); out = []
    for what, kw in {'ends after the horizon': dict(end=dt.datetime(2021, 1, 5)), 'entirely outside': dict(start=dt.datetime(2022, 1, 1), end=dt.datetime(2022, 2, 1))}.items():
        for freq in (None, '4h'):
            try:
                pf = eao.portfolio.Portfolio([sc('a'), sc('c', min_cap=-1, max_cap=1, freq=freq, **kw)]); op = pf.setup_optim_problem(pr, tg)
                eao.io.extract_output(pf, op, op.optimize(), pr); r = 'ok'
            except Exception as e: r = 'raises ' + type(e).__name__
            out.append(f"window {what}, freq={freq}: {r}")
    return '; '.join(out)

@witness
def D33():
    tg = grid(2); pr = sine(tg)
    base = A.Storage('b', nodes=N1, size=10, cap_in=2, cap_out=2, eff_in=.9, no_simult_in_out=True)
    eao.portfolio.Portfolio([sc('a'), A.ScaledAsset(name='s', base_asset=base, max_scale=2)]).setup_optim_problem(pr, tg)
    return 'no error'

@witness
def D34():
    tg = grid(); T = tg.T; pr = {'p': np.where((np.arange(T) % 12) < 6, 5., 30.), 'z': np.zeros(T)}
    st = A.Storage('st', nodes=N1, size=4, cap_in=1, cap_out=1, start_level=2., end_level=2., max_store_duration=3.)
    pf = eao.portfolio.Portfolio([sc('m', min_cap=-20, max_cap=20), st]); op = pf.setup_optim_problem(pr, tg); res = op.optimize()
    m = op.mapping[(op.mapping.asset == 'st') & (op.mapping.type == 'd')]
    level = 2. + np.cumsum([-res.x[i] for i in m.index])
    run = worst = 0
    for v in level:
        run = run + 1 if v > 1e-6 else 0; worst = max(worst, run)
    return f"max_store_duration=3 h, start level 2: fill level is non-zero for {worst} consecutive hours (levels min {level.min():.2f} max {level.max():.2f})"

@witness
def D35():
    tg = grid(); pr = sine(tg)
    nBC, nC = A.Node('B (C'), A.Node('C')
    assets = [sc('A', nBC), sc('A (B', nC, min_cap=-1, max_cap=1, extra_costs=.1), A.Transport(name='t', nodes=[nBC, nC], min_cap=0, max_cap=2)]
    pf = eao.portfolio.Portfolio(assets); op = pf.setup_optim_problem(pr, tg)
    d = eao.io.extract_output(pf, op, op.optimize(), pr)['dispatch']
    return f"3 assets on 2 nodes = 4 (asset, node) pairs, dispatch table has {d.shape[1]} columns: {list(d.columns)}"

@witness
def D36():
    tg = grid(); pr = sine(tg)
    a = A.CHPAsset_with_min_load_costs(name='chp', nodes=[N1, A.Node('h')], price='p', min_cap=1., max_cap=10., start=dt.datetime(2021, 1, 1, 6),
            min_load_threshhold={'start': [dt.datetime(2021, 1, 1, 0), dt.datetime(2021, 1, 1, 12)], 'end': [dt.datetime(2021, 1, 1, 12), dt.datetime(2021, 1, 2, 0)], 'values': [2., 6.]},
            min_load_costs=5., start_costs=1.)
    op = a.setup_optim_problem(pr, tg)
    return 'no error: %d variables' % len(op.c)

@witness
def D37():
    import pandas as pd
    tg = A.Timegrid(dt.date(2021, 1, 1), dt.date(2021, 1, 2), freq='h', main_time_unit='h', timezone='CET')
    d = {'start': [pd.Timestamp('2021-01-01 10:00', tz='CET')], 'end': [pd.Timestamp('2021-01-01 12:00', tz='CET')], 'capa': [1.], 'price': [-5.]}
    m1 = A.OrderBook('ob', N1, orders=d).setup_optim_problem(None, tg).mapping
    m2 = A.OrderBook('ob', N1, orders=pd.DataFrame(d)).setup_optim_problem(None, tg).mapping
    return 'order 10:00-12:00 CET: steps %s when given as dict, %s when given as DataFrame' % (m1.time_step.tolist(), m2.time_step.tolist())

@witness
def D38():
    n1, n2 = A.Node('a'), A.Node('b')
    tg = A.Timegrid(dt.date(2021, 1, 1), dt.date(2021, 1, 3), freq='h', main_time_unit='h')
    c0 = A.Transport(name='t', nodes=[n1, n2], min_cap=0, max_cap=1, costs_const=1.).setup_optim_problem({}, tg).c
    c1 = A.Transport(name='t', nodes=[n1, n2], min_cap=0, max_cap=1, costs_const=1., periodicity='d').setup_optim_problem({}, tg).c
    return 'transport with costs 1 over 48 h: total cost %.0f, as periodic (d) asset %.0f' % (c0.sum(), c1.sum())

@witness
def D39():
    tg = A.Timegrid(dt.datetime(2021, 1, 1, 0), dt.datetime(2021, 1, 1, 4), freq='h')
    a = A.Plant(name='PP', nodes=N1, price='p', min_cap=1., max_cap=10., min_runtime=8, time_already_running=1, start_costs=5.)
    op = a.setup_optim_problem({'p': np.ones(tg.T)}, timegrid=tg); m = op.mapping
    return 'running plant, min_runtime 8 on 4 steps: lower bounds of the start variables %s, value %.1f' % (op.l[m.index[m.var_name == 'bool_start']], op.optimize().value)

@witness
def D40():
    tg = A.Timegrid(dt.datetime(2021, 1, 1, 0), dt.datetime(2021, 1, 1, 6), freq='h')
    a = A.Plant(name='PP', nodes=N1, price='p', min_cap=1., max_cap=10., ramp=1., time_already_running=1, last_dispatch=2.)
    return 'running plant, last dispatch 2, ramp 1: dispatch %s' % np.round(a.setup_optim_problem({'p': -np.ones(tg.T)}, timegrid=tg).optimize().x[:6], 2)

@witness
def D41():
    tg = A.Timegrid(dt.datetime(2021, 1, 1, 0), dt.datetime(2021, 1, 1, 8), freq='h')
    a = A.Plant(name='PP', nodes=N1, price='p', min_cap=6., max_cap=10., ramp=1.1, time_already_running=2, last_dispatch=2.,
                start_ramp_lower_bounds=[1, 2, 4, 6, 10], shutdown_ramp_lower_bounds=[1.1])
    r = a.setup_optim_problem({'p': -np.ones(tg.T)}, timegrid=tg).optimize()
    return 'start ramp in progress, ramp 1.1: %s' % (r if isinstance(r, str) else np.round(r.x[:8], 2))

@witness
def D42():
    tg = A.Timegrid(dt.datetime(2021, 1, 1, 0), dt.datetime(2021, 1, 4, 12), freq='h')
    a = A.SimpleContract(name='a', nodes=N1, price='p', min_cap=-1, max_cap=1, freq='d'); a.set_timegrid(tg)
    r = tg.restricted
    return 'daily asset on 84 hourly steps: %d coarse steps covering %d fine steps' % (r.T, sum(len(x) for x in r.I_minor_in_major))

@witness
def D43():
    import eaopack as eao
    node, inner = A.Node('n'), A.Node('inner')
    tg = A.Timegrid(dt.date(2021, 1, 1), dt.date(2021, 1, 11), freq='d')
    prices = {'p': np.linspace(1, 10, tg.T), 'q': np.linspace(1, 10, tg.T) + 5}
    buy = A.SimpleContract(name='buy', price='p', nodes=inner, min_cap=0, max_cap=1)
    tr = A.Transport(name='tr', nodes=[inner, node], min_cap=0, max_cap=5)
    sa = eao.portfolio.StructuredAsset(name='S', portfolio=eao.portfolio.Portfolio([buy, tr]), nodes=node, start=dt.date(2021, 1, 4), end=dt.date(2021, 1, 7))
    sell = A.SimpleContract(name='sell', price='q', nodes=node, min_cap=-10, max_cap=0)
    portf = eao.portfolio.Portfolio([sa, sell]); op = portf.setup_optim_problem(prices, tg); res = op.optimize()
    d = eao.io.extract_output(portf, op, res, prices)['dispatch']['S']
    return 'structured asset with window [Jan 4, Jan 7) around assets without dates: active on %d of 10 days, value %.0f' % ((d.abs() > 1e-6).sum(), res.value)

@witness
def D44():
    import eaopack as eao
    tg = A.Timegrid(dt.date(2021, 1, 1), dt.date(2021, 1, 5), freq='h'); prices = {'p': np.sin(np.linspace(0, 30, tg.T))}
    sc = A.SimpleContract(name='sc', price='p', nodes=N1, min_cap=-10, max_cap=10)
    st = A.Storage('st', nodes=N1, size=10, cap_in=2, cap_out=2, start_level=5, end_level=5, block_size='d')
    portf = eao.portfolio.Portfolio([sc, st])
    v1 = portf.setup_optim_problem(prices, tg).optimize().value
    v2 = portf.setup_split_optim_problem(prices, tg, interval_size='2d').optimize().value
    s2 = A.Storage('sto', N1, size=10, cap_in=1, cap_out=1, start_level=0, end_level=5, block_size='d', price='p')
    r = s2.setup_optim_problem({'p': 30 + 10 * np.sin(np.arange(48) / 4.)}, A.Timegrid(dt.date(2021, 1, 1), dt.date(2021, 1, 3), freq='h')).optimize()
    return 'daily blocks: unsplit %.4f, split into 2-day intervals %.4f; start level 0 / end level 5: %s' % (v1, v2, r if isinstance(r, str) else 'optimal')

@witness
def D45():
    import eaopack as eao
    def run(sname):
        tg = A.Timegrid(dt.date(2021, 1, 1), dt.date(2021, 1, 5), freq='d')
        n_in, n_out = A.Node('inner'), A.Node('outer')
        src = A.SimpleContract(name='src', nodes=n_in, price='p', min_cap=0., max_cap=10.)
        tr = A.Transport(name='tr', nodes=[n_in, n_out], min_cap=0., max_cap=10.)
        s = eao.portfolio.StructuredAsset(name=sname, portfolio=eao.portfolio.Portfolio([src, tr]), nodes=n_out)
        dem = A.SimpleContract(name='dem', nodes=n_out, min_cap=-5., max_cap=-5.)
        portf = eao.portfolio.Portfolio([s, dem]); op = portf.setup_optim_problem({'p': np.ones(tg.T)}, tg)
        return eao.io.extract_output(portf, op, op.optimize())['dispatch'][sname].values[0]
    return "reported dispatch of the structured asset: %.0f when called 'plant', %.0f when called 'plant_slp_step_1'" % (run('plant'), run('plant_slp_step_1'))

@witness
def D46():
    import eaopack as eao
    tg = A.Timegrid(dt.date(2021, 1, 1), dt.date(2021, 1, 4), freq='h'); prices = {'p': np.arange(tg.T, dtype=float)}
    base = A.SimpleContract(name='c', price='p', min_cap=-1, max_cap=1, nodes=N1)
    sc = A.ScaledAsset(name='sc', base_asset=base, max_scale=2, fix_costs=1.)
    portf = eao.portfolio.Portfolio([sc]); portf.setup_split_optim_problem(prices, tg, interval_size='d')
    return 'after a split optimisation: grid of the scaled asset has %d steps, grid of its base asset %d' % (sc.timegrid.T, base.timegrid.T)

@witness
def D47():
    import eaopack as eao, pandas as pd
    tg = A.Timegrid(dt.date(2021, 1, 1), dt.date(2021, 1, 4), freq='h')
    sc = A.SimpleContract(name='m', nodes=N1, price='p', min_cap=-1, max_cap=1)
    st = A.Storage('s', nodes=N1, size=4, cap_in=1, cap_out=1, start_level=2, end_level=2, block_size='d')
    portf = eao.portfolio.Portfolio([sc, st])
    pA = {'p': np.sin(np.linspace(0, 20, tg.T))}; pB = {'p': np.cos(np.linspace(0, 20, tg.T))}
    rA = portf.setup_split_optim_problem(pA, tg, interval_size='d').optimize()
    opC = portf.setup_split_optim_problem(pB, tg, interval_size='d', fix_time_window={'I': dt.datetime(2021, 1, 2, 12), 'x': rA.x}); rC = opC.optimize()
    idx = opC.mapping.index[opC.mapping['time_step'].isin(tg.I[tg.timepoints <= pd.Timestamp(2021, 1, 2, 12)])].unique()
    return 'split problem with a window fixed up to day 2, 12:00: largest deviation from the previous solution inside the window %.3f' % np.abs(rA.x[idx] - rC.x[idx]).max()

@witness
def D48():
    tg = A.Timegrid(dt.date(2021, 1, 1), dt.date(2021, 3, 1), freq='W')
    return "grid from 2021-01-01 with freq 'W': first time point %s" % str(tg.timepoints[0])[:10]

@witness
def D49():
    tg = A.Timegrid(dt.date(2021, 3, 1), dt.date(2021, 3, 3), freq='d', timezone='America/New_York')
    return "grid in America/New_York, {'start': 2021-03-01, 'values': 3}: %s" % tg.values_to_grid({'start': dt.datetime(2021, 3, 1), 'values': 3.})

@witness
def D50():
    def run(mtu, per_hour):
        tg = A.Timegrid(dt.date(2021, 1, 1), dt.date(2021, 1, 2), freq='h', main_time_unit=mtu)
        s = A.Storage('s', N1, size=1, cap_in=1 / per_hour, cap_out=1 / per_hour, price='p', max_store_duration=10 * per_hour)
        p = 50. * np.ones(tg.T); p[:10] = np.arange(10); p[10] = 100.
        return round(s.setup_optim_problem({'p': p}, timegrid=tg).optimize().value, 4)
    return 'storage with a holding time of 10 hours, main time unit h / min / d: value %s / %s / %s' % (run('h', 1), run('min', 60), run('d', 1 / 24))

@witness
def D51():
    tg = A.Timegrid(dt.date(2021, 1, 1), dt.datetime(2021, 1, 1, 8), freq='h', main_time_unit='h')
    a = A.Plant(name='pl', nodes=[N1], price='price', min_cap=4., max_cap=10., ramp=1., start_ramp_lower_bounds=[2., 3.], start_ramp_upper_bounds=[2., 3.], time_already_off=5)
    res = a.setup_optim_problem({'price': np.array([-10.] * 6 + [10.] * 2)}, timegrid=tg).optimize()
    return 'plant off, start ramp [2, 3], ramp 1, negative prices: dispatch %s' % np.round(res.x[:8], 1)

@witness
def D52():
    tg = A.Timegrid(dt.date(2021, 1, 4), dt.date(2021, 2, 1), freq='d')
    a = A.SimpleContract(name='a', nodes=N1, min_cap=-1., max_cap=1., price='p', freq='2d', periodicity='W')
    op = a.setup_optim_problem({'p': np.arange(tg.T) * 1.}, tg)
    return "SimpleContract(freq='2d', periodicity='W') on a daily grid: %d variables, mapping labels %d .. %d" % (len(op.c), op.mapping.index.min(), op.mapping.index.max())

@witness
def D53():
    import eaopack as eao
    from copy import deepcopy
    tg = A.Timegrid(dt.date(2021, 1, 1), dt.date(2021, 1, 3), freq='12h')
    src = A.SimpleContract(name='src', nodes=N1, min_cap=0., max_cap=1.)
    mkt = A.SimpleContract(name='mkt', nodes=N1, price='p', min_cap=-1., max_cap=0., freq='d')
    portf = eao.portfolio.Portfolio([src, mkt])
    sc = [{'p': np.array([1., 100., 1., 1.])}, {'p': np.array([1., 0., 1., 1.])}]
    ops = [portf.setup_optim_problem(s, tg) for s in sc]
    vals = [o.optimize().value for o in ops]
    slp = eao.stoch_lin_prog.make_slp(deepcopy(ops[0]), portf, tg, dt.datetime(2021, 1, 1, 12), [sc[1]])
    return 'per-scenario optima %s (mean %.0f), SLP optimum %.0f' % (np.round(vals, 0), np.mean(vals), slp.optimize().value)

@witness
def D54():
    tg = A.Timegrid(dt.date(2021, 1, 1), dt.date(2021, 1, 22), freq='d')
    a = A.SimpleContract(name='sc', nodes=N1, price='price', min_cap=-1., max_cap=1., periodicity='W')
    m = a.setup_optim_problem({'price': np.ones(tg.T)}, timegrid=tg).mapping
    return "grid starting on a Friday, periodicity 'W': variable 0 stands for %s" % [tg.timepoints[t].strftime('%a') for t in m.loc[[0], 'time_step']]

@witness
def D55():
    tg = A.Timegrid(dt.date(2021, 1, 1), dt.date(2021, 1, 3), freq='h')
    cap = np.hstack((np.zeros(12), 10 * np.ones(12), np.zeros(12), 10 * np.ones(12)))
    a = A.SimpleContract(name='sc', nodes=N1, price='price', min_cap=0., max_cap='cap', freq='d')
    return 'daily contract, capacity series 0 / 10 per half day: upper bounds %s' % a.setup_optim_problem({'price': -np.ones(tg.T), 'cap': cap}, timegrid=tg).u

@witness
def D56():
    import eaopack as eao, pandas as pd
    tg = A.Timegrid(dt.date(2021, 1, 1), dt.date(2021, 1, 5), freq='d')
    a = A.SimpleContract(name='SC', nodes=N1, price='market', min_cap=-100., max_cap=100.)
    book = A.OrderBook('ob', N1, orders=dict(start=[pd.Timestamp(2020, 12, 1)], end=[pd.Timestamp(2020, 12, 5)], capa=[1.], price=[1.]), full_exec=True)
    op = eao.portfolio.Portfolio([book, a]).setup_optim_problem({'market': 10 * np.ones(tg.T)}, tg)
    return 'full execution, order wholly before the grid: executed fraction %s' % op.optimize().x[:1]

@witness
def D57():
    tg = A.Timegrid(dt.datetime(2021, 1, 1, 12), dt.datetime(2021, 1, 4), freq='h')
    c = A.Contract(name='c', nodes=N1, freq='d', start=dt.datetime(2021, 1, 1), min_cap=0, max_cap=10, price='p',
                   min_take={'start': dt.datetime(2021, 1, 1), 'end': dt.datetime(2021, 1, 4), 'values': 72})
    r = c.setup_optim_problem({'p': np.ones(tg.T)}, tg).optimize()
    return 'daily contract, min take 72 over three days, horizon starting at noon (60 of 72 h covered): volume taken %.0f' % -r.value

@witness
def D58():
    tg = A.Timegrid(dt.date(2021, 1, 1), dt.date(2021, 1, 5), freq='h')
    s = A.Storage('st', nodes=N1, start=dt.date(2021, 1, 3), end=dt.date(2021, 1, 5), size=10, cap_in=1, cap_out=1)
    pf = eao.portfolio.Portfolio([sc('buy'), s])
    r = pf.setup_split_optim_problem({'p': np.sin(np.linspace(0, 30, tg.T)) + 2}, tg, 'd').optimize()
    return 'split optimisation, storage starting in the third interval: value %.4f' % r.value

@witness
def D59():
    import pandas as pd
    tg = A.Timegrid(dt.date(2021, 1, 1), dt.date(2021, 1, 5), freq='d')
    ob = dict(start=[pd.Timestamp(2021, 1, 1), pd.Timestamp(2021, 1, 2)], end=[pd.Timestamp(2021, 1, 3), pd.Timestamp(2021, 1, 4)], capa=[1., -2.], price=[5., 12.])
    sa = eao.portfolio.StructuredAsset(eao.portfolio.Portfolio([A.OrderBook('ob', N1, orders=ob)]), name='sa', nodes=N1)
    flat = eao.portfolio.Portfolio([sc('sc', min_cap=-100, max_cap=100), A.OrderBook('ob', N1, orders=ob)])
    pr = {'p': 10 * np.ones(tg.T)}
    return 'order book: flat %.2f, inside a structured asset %.2f' % (
        flat.setup_optim_problem(pr, tg).optimize().value,
        eao.portfolio.Portfolio([sc('sc', min_cap=-100, max_cap=100), sa]).setup_optim_problem(pr, tg).optimize().value)

@witness
def D60():
    import pandas as pd
    inner = A.Node('inner')
    tg = A.Timegrid(dt.date(2021, 1, 1), dt.date(2021, 1, 5), freq='d')
    ob = dict(start=[pd.Timestamp(2020, 1, 1), pd.Timestamp(2021, 1, 1), pd.Timestamp(2021, 1, 2)], end=[pd.Timestamp(2020, 1, 2), pd.Timestamp(2021, 1, 3), pd.Timestamp(2021, 1, 4)],
              capa=[1., 1., -2.], price=[1., 5., 12.])
    sa = eao.portfolio.StructuredAsset(eao.portfolio.Portfolio([A.OrderBook('ob', inner, orders=ob), A.Transport('tr', [inner, N1], min_cap=-10, max_cap=10)]), name='sa', nodes=N1)
    r = eao.portfolio.Portfolio([sc('sc', min_cap=-100, max_cap=100), sa]).setup_optim_problem({'p': 10 * np.ones(tg.T)}, tg).optimize()
    return 'order book with an order outside the horizon + transport inside a structured asset: value %.2f (flat portfolio: 432.00)' % r.value

@witness
def D61():
    tg = A.Timegrid(dt.datetime(2021, 1, 1, 0), dt.datetime(2021, 1, 1, 4), freq='h', main_time_unit='h')
    pl = A.Plant(name='p', nodes=[A.Node('power')], price='price', min_cap=5., max_cap=10., start_ramp_lower_bounds=[1, 2, 3, 4, 5, 6, 7], time_already_running=2)
    r = pl.setup_optim_problem({'price': np.ones(tg.T)}, timegrid=tg).optimize()
    return 'start ramp of 7 steps, running for 2, horizon of 4 steps: dispatch %s (expected the remaining profile 3 4 5 6)' % (r if isinstance(r, str) else np.round(r.x[:4], 3))


@witness
def D62():
    tg = A.Timegrid(dt.datetime(2021, 1, 1, 0), dt.datetime(2021, 1, 1, 3), freq='h', main_time_unit='h')
    pl = A.Plant(name='p', nodes=[A.Node('power')], price='price', min_cap=5., max_cap=10., ramp=3., shutdown_ramp_lower_bounds=[4, 3, 2, 1], time_already_running=5, last_dispatch=6.)
    op = pl.setup_optim_problem({'price': np.ones(tg.T)}, timegrid=tg)
    return 'shutdown ramp of 4 steps on a horizon of 3 steps, ramp given: problem with %d rows and %d variables is set up' % op.A.shape


@witness
def D63():
    import pandas as pd
    tg = A.Timegrid(pd.Timestamp(2021, 3, 22), pd.Timestamp(2021, 4, 5), freq='d', timezone='CET')   # dt[6] = 23 h
    p = np.zeros(tg.T); p[6] = -10.
    a = A.SimpleContract(name='c', nodes=A.Node('n'), price='p', min_cap=0., max_cap=1., freq='7d')
    v = a.setup_optim_problem({'p': p}, timegrid=tg).optimize().value
    return "weekly contract on a daily CET grid over the DST switch, price -10 on the 23 h day: value %.2f (fine problem with constant weekly rate: 230.00)" % v


@witness
def D64():
    tg = A.Timegrid(dt.date(2021, 1, 1), dt.date(2021, 1, 5), freq='h')
    prices = {'p': np.sin(np.arange(tg.T)), 'q': np.cos(np.arange(tg.T))}
    a = A.SimpleContract(name='a', nodes=N1, price='p', min_cap=-1, max_cap=1, start=dt.datetime(2021, 1, 3))
    b = A.SimpleContract(name='b', nodes=N1, price='q', min_cap=-1, max_cap=1, start=dt.datetime(2021, 1, 3))
    pf = eao.portfolio.Portfolio([a, b])
    v0 = pf.setup_optim_problem(prices, tg).optimize().value
    op = pf.setup_split_optim_problem(prices, tg, interval_size='d')
    r = op.optimize()
    out = eao.io.extract_output(pf, op, r)
    return 'both assets start on day 3 of 4: unsplit %.4f, split into days %.4f, dispatch table %s' % (v0, r.value, out['dispatch'].shape)


@witness
def D65():
    tg = A.Timegrid(dt.date(2021, 3, 28), dt.date(2021, 4, 2), freq='d', main_time_unit='h', timezone='CET')
    pl = A.Plant(name='p', nodes=[A.Node('power')], price='price', min_cap=0., max_cap=100., ramp=1., last_dispatch=0., time_already_running=1)
    r = pl.setup_optim_problem({'price': -np.ones(tg.T)}, timegrid=tg).optimize()
    x = r.x[:tg.T]
    return 'ramp 1 / h, step lengths %s h: change per step %s (ramp x step length: %s)' % (tg.dt, np.round(np.diff(np.hstack((0, x))), 2), 1. * tg.dt)


@witness
def D66():
    tg = A.Timegrid(dt.date(2021, 1, 1), dt.date(2021, 1, 2), freq='h')
    n1, n2 = A.Node('n1'), A.Node('n2')
    src = A.SimpleContract(name='src', nodes=n2, price='p', min_cap=0., max_cap=100.)
    sink = A.SimpleContract(name='sink', nodes=n1, price='q', min_cap=-10., max_cap=0.)
    tr = A.Transport(name='tr', nodes=[n1, n2], min_cap=-10., max_cap=0., efficiency=0.5)
    pf = eao.portfolio.Portfolio([src, sink, tr])
    op = pf.setup_optim_problem({'p': np.ones(tg.T), 'q': np.ones(tg.T)}, tg)
    r = op.optimize()
    return 'reverse transport with efficiency 0.5, same price at both nodes: value %.2f (a lossy transport cannot earn anything: 0.00)' % r.value


@witness
def D67():
    tg = A.Timegrid(dt.date(2021, 1, 1), dt.date(2021, 1, 5), freq='h')
    sto = A.Storage(name='sto', nodes=N1, size=60., cap_in=1., cap_out=1., freq='d', inflow=0.25)
    mkt = A.SimpleContract(name='mkt', nodes=N1, min_cap=-50., max_cap=50., price='price')
    pr = np.ones(tg.T); pr[:48] = 0.
    pf = eao.portfolio.Portfolio([sto, mkt])
    op = pf.setup_optim_problem({'price': pr}, tg)
    res = op.optimize()
    out = eao.io.extract_output(pf, op, res, {'price': pr})['internal_variables']
    rep = out['sto_fill_level'].values.astype(float)
    phys = (out['sto_charge'].values.astype(float) + out['sto_discharge'].values.astype(float) + 0.25 * tg.dt).cumsum()
    return 'daily storage on an hourly grid with inflow: reported level %s, level from the reported flows %s (max deviation %.2f)' % (np.round(rep[:3], 2), np.round(phys[:3], 2), np.abs(rep - phys).max())


@witness
def D68():
    import pandas as pd
    from copy import deepcopy
    tg = A.Timegrid(dt.date(2021, 1, 1), dt.date(2021, 1, 5), freq='d')
    ob = A.OrderBook('ob', N1, orders=dict(start=[pd.Timestamp(2020, 1, 1), pd.Timestamp(2021, 1, 2)], end=[pd.Timestamp(2020, 1, 2), pd.Timestamp(2021, 1, 4)], capa=[1., 1.], price=[1., 5.]))
    mk = A.SimpleContract(name='mk', nodes=N1, price='p', min_cap=-10, max_cap=10)
    pf = eao.portfolio.Portfolio([ob, mk])
    op = pf.setup_optim_problem({'p': 10 * np.ones(tg.T)}, tg)
    slp = eao.stoch_lin_prog.make_slp(deepcopy(op), pf, tg, dt.date(2021, 1, 3), [{'p': 12 * np.ones(tg.T)}, {'p': 8 * np.ones(tg.T)}])
    return 'order book with an order outside the grid: deterministic %.2f, two-stage SLP %.2f' % (op.optimize().value, slp.optimize().value)


@witness
def D69():
    n1, n2 = A.Node('n1'), A.Node('n2')
    tg = A.Timegrid(dt.datetime(2021, 1, 1), dt.datetime(2021, 1, 1, 1), freq='h')
    t = A.Transport(name='t', nodes=[n1, n2], min_cap=-10, max_cap=10, efficiency=0.5)
    src = A.SimpleContract(name='src', nodes=n2, price='p', min_cap=0, max_cap=10)
    snk = A.SimpleContract(name='snk', nodes=n1, price='p', min_cap=-10, max_cap=0)
    try:
        r = eao.portfolio.Portfolio([t, src, snk]).setup_optim_problem({'p': np.ones(tg.T)}, tg).optimize()
        return 'bidirectional transport with efficiency 0.5 and no costs, same price at both nodes: value %.2f (expected 0.00)' % r.value
    except NotImplementedError as e:
        return 'bidirectional transport with efficiency 0.5 and no costs is rejected: %s' % str(e)[:60]


@witness
def D70():
    tg = A.Timegrid(dt.date(2021, 1, 1), dt.date(2021, 1, 2), freq='h'); T = tg.T
    a = A.SimpleContract(name='a', nodes=N1, price='p', extra_costs='ec', min_cap=-5., max_cap=5.)
    b = A.SimpleContract(name='b', nodes=N1, price='q', min_cap=-5., max_cap=5.)
    pf = eao.portfolio.Portfolio([a, b])
    pA = {'p': np.sin(np.arange(T)), 'q': np.cos(np.arange(T)), 'ec': 0.1 * np.ones(T)}
    pB = {'p': np.cos(np.arange(T)), 'q': np.sin(np.arange(T)), 'ec': np.zeros(T)}
    resA = pf.setup_optim_problem(pA, tg).optimize()
    opC = pf.setup_optim_problem(pB, tg, fix_time_window={'I': np.arange(T) < 12, 'x': resA.x})
    r = opC.optimize()
    return 'extra costs from the price data: %d variables with ec = 0.1, %d with ec = 0; window fixed to the previous solution: %s' % (len(resA.x), len(opC.c), r if isinstance(r, str) else 'solved')


@witness
def D71():
    tg = A.Timegrid(dt.date(2021, 1, 1), dt.datetime(2021, 1, 3, 12), freq='h')
    s = A.Storage('sto', N1, size=10., cap_in=1., cap_out=1., start_level=0., end_level=5., block_size='d')
    m = A.SimpleContract(name='market', price='price', nodes=N1, min_cap=-50., max_cap=50.)
    p = {'price': 30. + 10. * np.sin(np.arange(tg.T) / 24. * 2 * np.pi)}
    pf = eao.portfolio.Portfolio([s, m]); op = pf.setup_optim_problem(p, tg); res = op.optimize()
    fl = eao.io.extract_output(pf, op, res, p)['internal_variables']['sto_fill_level'].values
    return 'storage of size 10 with daily blocks, start level 0, end level 5: reported fill level reaches %.1f (last step %.1f); in the restrictions every block restarts at the start level' % (fl.max(), fl[-1])


@witness
def D72():
    tg = A.Timegrid(dt.date(2021, 1, 1), dt.date(2021, 1, 3), freq='h')
    cap = {'start': [dt.datetime(2021, 1, 1), dt.datetime(2021, 1, 1, 12)], 'end': [dt.datetime(2021, 1, 1, 12), dt.datetime(2021, 1, 3)], 'values': [10., 0.]}
    prices = {'p': np.ones(48), 'cap': np.r_[10 * np.ones(12), np.zeros(36)]}
    u1 = A.SimpleContract(name='a', nodes=N1, price='p', min_cap=0., max_cap=cap, freq='d').setup_optim_problem(prices, tg).u
    u2 = A.SimpleContract(name='a', nodes=N1, price='p', min_cap=0., max_cap='cap', freq='d').setup_optim_problem(prices, tg).u
    return 'daily contract on an hourly grid, limit 10 for the first 12 h, then 0: capacity per day %s as dictionary, %s as series' % (u1.tolist(), u2.tolist())


if __name__ == '__main__':
    which = sys.argv[1:] or list(W)
    for k in which:
        buf = _io.StringIO()
        try:
            with contextlib.redirect_stdout(buf):
                r = W[k]()
            noise = [l for l in buf.getvalue().splitlines() if l.startswith('   ')]
            for l in noise: print(l)
            print(f"{k}: {r}")
        except Exception as e:
            for l in [l for l in buf.getvalue().splitlines() if l.startswith('   ')]: print(l)
            tb = traceback.extract_tb(e.__traceback__)[-1]
            print(f"{k}: RAISES {type(e).__name__}: {str(e)[:150]} @ {tb.filename.split('/')[-1]}:{tb.lineno}")
